"""C16 correspondence: the real DBusObjectHandler (exportObject / unexportObject /
handleMethodCallMessage with its built-ins, generateIntrospectionXML) against
Model/ObjTree.v (model and pre-repair legacy model) and Spec/PathTree.v (oracle).

A case is [events, qpaths, every]:
  events = [[0, path, kind] | [1, path], ...]   export an object of class `kind` at path / unexport path
  qpaths = paths queried (ordinary call, Introspect, GetManagedObjects)
  every  = 1: query after every step, 0: only after the last one
The handler is driven from outside: its `conn` is a recorder whose sendMessage
keeps the wire bytes; calls are real MethodCallMessages parsed from bytes; every
reply / signal is re-parsed from its bytes before it is looked at."""
import itertools
import xml.etree.ElementTree as ET

from harness import common

ASSUMPTIONS = [
    'replies are a function of DBusObjectHandler.exports: the exhaustive stream visits every history of the stated '
    'length but queries (all paths x 3 call kinds) only the first history reaching each distinct exported set '
    '(path -> object class); the signal / exception of the last step is compared for every (set, event) pair; '
    'the literal streams (all short histories, random long ones) query after every step without this sharing',
    'an exported object is seen through IDBusObject only: getObjectPath(), getInterfaces() and getAllProperties(name) '
    '(the latter is property C17); the test classes declare each interface on one class so D15 does not interfere, '
    'and the declared (interface -> readable properties) table is checked against what the objects return; '
    'for an object of a derived class the declared interfaces are those of the class and of all its bases '
    '(kinds 3-6; the classes of the hierarchy are created anew for every case)',
    'kinds 7-11: class hierarchies in which ONE INTERFACE NAME is declared on more than one class (a subclass '
    're-declares / extends an interface of its base under the same name, adding a property to a base revision that '
    'has none, or to one that has some; a further subclass declaring nothing): getInterfaces() then yields two '
    'interface objects of one name, and the property text is read per interface NAME: the object is reported with '
    'each of its interface names once, carrying all readable properties the object has under that name (what '
    'Properties.GetAll / getAllProperties(name) gives, property C17); InterfacesRemoved is compared as the MULTISET of '
    'interface names, except that a name declared on two classes of a hierarchy counts once (whether it is listed once or twice is not looked at)',
    'org.freedesktop.DBus.Peer.Ping is answered at any path by design (connection-level); it is not queried here',
    'ill-formed object paths (malformed stream: objects whose _objectPath was overwritten) are compared with the '
    'model only; the theorems and the oracle speak about histories over well-formed paths',
    'property values are assumed marshallable as variants (str and int32 values are used)',
]

UNIVERSE = ['/', '/a', '/a/b', '/a/bc', '/a/b/c', '/a/b/c/d', '/ab']
EXTRA_Q = ['/a/b/x', '/zz', '/a/b/c/d/e', '/a/bcd']
QPATHS = UNIVERSE + EXTRA_Q
BAD_PATHS = ['', 'a', '/a/', '//', '/a//b', '/a/b/', 'a/b', '/a/b c']
SENDER = ':1.7'
UNKNOWN_OBJECT = 'org.freedesktop.DBus.Error.UnknownObject'
OM = 'org.freedesktop.DBus.ObjectManager'

# declared content of the object classes: kind -> [(interface name, {readable property: value})] in
# getInterfaces() order (own interfaces, then DBusObject's org.freedesktop.DBus.Properties)
KINDS = [
    [('org.ex.A', {'r0': 'x', 'n0': 7}), ('org.freedesktop.DBus.Properties', {})],
    [('org.ex.B', {'rb': 'y'}), ('org.ex.C', {}), ('org.freedesktop.DBus.Properties', {})],
    [('org.ex.A', {'r0': 'z', 'n0': 8}), ('org.freedesktop.DBus.Properties', {})],
    # kinds 3..6: one class hierarchy (HIER_FIRST..): a base class, a class derived from it that adds an interface,
    # a class derived from that one, and a second class derived from the base.  A derived class exports the
    # interfaces of all its bases (getInterfaces() order: most derived first).
    [('org.ex.P', {'pb': 'b'}), ('org.freedesktop.DBus.Properties', {})],
    [('org.ex.Q', {'qx': 5}), ('org.ex.P', {'pb': 'b'}), ('org.freedesktop.DBus.Properties', {})],
    [('org.ex.R', {}), ('org.ex.Q', {'qx': 5}), ('org.ex.P', {'pb': 'b'}), ('org.freedesktop.DBus.Properties', {})],
    [('org.ex.S', {'sv': 's'}), ('org.ex.P', {'pb': 'b'}), ('org.freedesktop.DBus.Properties', {})],
    # kinds 7..11: hierarchies in which one interface NAME is declared on two classes (REDECL_KINDS): the entry lists
    # getInterfaces() (one element per declaring class, most derived first) with what getAllProperties(name) gives,
    # which goes by name - hence the same dictionary at both occurrences.
    #  7: base class, first revision of org.ex.T: methods only          8: derived, re-declares org.ex.T adding 'tv'
    #  9: base class, org.ex.U with 'ub'                               10: derived, re-declares org.ex.U adding 'ux'
    # 11: derived from 8, declares no interface of its own
    [('org.ex.T', {}), ('org.freedesktop.DBus.Properties', {})],
    [('org.ex.T', {'tv': 3}), ('org.ex.T', {'tv': 3}), ('org.freedesktop.DBus.Properties', {})],
    [('org.ex.U', {'ub': 'u'}), ('org.freedesktop.DBus.Properties', {})],
    [('org.ex.U', {'ub': 'u', 'ux': 4}), ('org.ex.U', {'ub': 'u', 'ux': 4}), ('org.freedesktop.DBus.Properties', {})],
    [('org.ex.T', {'tv': 3}), ('org.ex.T', {'tv': 3}), ('org.freedesktop.DBus.Properties', {})],
]
NKINDS_MAIN = 2          # kinds used by the exhaustive stream; kind 2 (same class as 0, other values) appears in the literal streams
HIER_FIRST = 3           # kinds >= HIER_FIRST: the class hierarchy; its classes are made anew for every case, so
                         # that the history itself decides which class of the hierarchy is used first
HIER_KINDS = [3, 4, 5, 6]
REDECL_KINDS = [7, 8, 9, 10, 11]
REDECL_NAMES = ('org.ex.T', 'org.ex.U')


def names_canon(names):
    """interface names of an InterfacesRemoved signal: a multiset, except that a name declared on two classes of a
    hierarchy (REDECL_NAMES) counts once - whether such a name is listed once or twice the property does not say"""
    names = sorted(names)
    return [n for i, n in enumerate(names) if not (n in REDECL_NAMES and i > 0 and names[i - 1] == n)]


def kinds_sexp():
    return [[[n, sorted([k, v] for k, v in p.items())] for n, p in ifs] for ifs in KINDS]


_env = {}


def env():
    """Build the test classes against the tree under test (once per process)."""
    if _env:
        return _env
    from txdbus import objects, message, error, introspection  # noqa: F401
    from txdbus.interface import DBusInterface, Method, Property, Signal

    ifa = DBusInterface('org.ex.A', Method('Who', returns='s'),
                        Property('r0', 's'),
                        Property('w0', 's', readable=False, writeable=True),
                        Property('n0', 'i', writeable=True))
    ifb = DBusInterface('org.ex.B', Method('Who', returns='s'), Property('rb', 's'))
    ifc = DBusInterface('org.ex.C', Signal('Tick', 's'))

    class ObjA(objects.DBusObject):
        dbusInterfaces = [ifa]
        r0 = objects.DBusProperty('r0')
        w0 = objects.DBusProperty('w0')
        n0 = objects.DBusProperty('n0')

        def __init__(self, path, kind, r0, n0):
            objects.DBusObject.__init__(self, path)
            self.kind = kind
            self.r0 = r0
            self.w0 = 'hidden'
            self.n0 = n0

        def dbus_Who(self):
            return '%d:%s' % (self.kind, self.getObjectPath())

    class ObjB(objects.DBusObject):
        dbusInterfaces = [ifb, ifc]
        rb = objects.DBusProperty('rb')

        def __init__(self, path, kind, rb):
            objects.DBusObject.__init__(self, path)
            self.kind = kind
            self.rb = rb

        def __len__(self):
            return 0          # an exported object that is FALSY in Python (an empty collection): it is exported all the same

        def dbus_Who(self):
            return '%d:%s' % (self.kind, self.getObjectPath())

    ifp = DBusInterface('org.ex.P', Method('Who', returns='s'), Property('pb', 's'))
    ifq = DBusInterface('org.ex.Q', Method('Q1', returns='s'), Property('qx', 'i'))
    ifr = DBusInterface('org.ex.R', Signal('Rang', 's'))
    ifs_ = DBusInterface('org.ex.S', Property('sv', 's'))

    # one interface name declared on two classes of a hierarchy: a first revision and an extended one
    ift0 = DBusInterface('org.ex.T', Method('Who', returns='s'), noRegister=True)
    ift1 = DBusInterface('org.ex.T', Method('Who', returns='s'), Method('T1', returns='s'), Property('tv', 'i'),
                         noRegister=True)
    ifu0 = DBusInterface('org.ex.U', Method('Who', returns='s'), Property('ub', 's'), noRegister=True)
    ifu1 = DBusInterface('org.ex.U', Method('Who', returns='s'), Property('ub', 's'), Property('ux', 'i'),
                         noRegister=True)

    def hier():
        """a new copy of the class hierarchies: kind -> class"""
        class Plain(objects.DBusObject):
            def __init__(self, path, kind):
                objects.DBusObject.__init__(self, path)
                self.kind = kind
                if kind in (8, 11):
                    self.tv = 3
                if kind in (9, 10):
                    self.ub = 'u'
                if kind == 10:
                    self.ux = 4

            def dbus_Who(self):
                return '%d:%s' % (self.kind, self.getObjectPath())

        class TBase(Plain):
            dbusInterfaces = [ift0]

        class TExt(TBase):
            dbusInterfaces = [ift1]
            tv = objects.DBusProperty('tv', 'org.ex.T')

            def dbus_T1(self):
                return 't'

        class TExt2(TExt):
            pass

        class UBase(Plain):
            dbusInterfaces = [ifu0]
            ub = objects.DBusProperty('ub', 'org.ex.U')

        class UExt(UBase):
            dbusInterfaces = [ifu1]
            ux = objects.DBusProperty('ux', 'org.ex.U')

        class Base(objects.DBusObject):
            dbusInterfaces = [ifp]
            pb = objects.DBusProperty('pb')

            def __init__(self, path, kind):
                objects.DBusObject.__init__(self, path)
                self.kind = kind
                self.pb = 'b'
                if kind in (4, 5):
                    self.qx = 5
                if kind == 6:
                    self.sv = 's'

            def dbus_Who(self):
                return '%d:%s' % (self.kind, self.getObjectPath())

        class Ext(Base):
            dbusInterfaces = [ifq]
            qx = objects.DBusProperty('qx')

            def dbus_Q1(self):
                return 'q'

        class Ext2(Ext):
            dbusInterfaces = [ifr]

        class Sib(Base):
            dbusInterfaces = [ifs_]
            sv = objects.DBusProperty('sv')

        return {3: Base, 4: Ext, 5: Ext2, 6: Sib, 7: TBase, 8: TExt, 9: UBase, 10: UExt, 11: TExt2}

    def make(kind, path, world=None):
        ok = True
        try:
            from txdbus import marshal
            marshal.validateObjectPath(path)
        except Exception:
            ok = False
        p0 = path if ok else '/placeholder'
        if kind == 0:
            o = ObjA(p0, 0, 'x', 7)
        elif kind == 1:
            o = ObjB(p0, 1, 'y')
        elif kind >= HIER_FIRST:
            o = world[kind](p0, kind)
        else:
            o = ObjA(p0, 2, 'z', 8)
        if not ok:
            o._objectPath = path      # the handler sees objects through getObjectPath() only
        return o

    class Conn(object):
        def __init__(self):
            self.sent = []

        def sendMessage(self, msg):
            self.sent.append(bytes(msg.rawMessage))

    calls = {}

    def call_msg(path, which):
        key = (path, which)
        m = calls.get(key)
        if m is None:
            if which == 0:
                mc = message.MethodCallMessage(path, 'Who')
            elif which == 1:
                mc = message.MethodCallMessage(path, 'Introspect', interface='org.freedesktop.DBus.Introspectable')
            else:
                mc = message.MethodCallMessage(path, 'GetManagedObjects', interface=OM)
            m = message.parseMessage(mc.rawMessage, [])
            m.sender = SENDER
            calls[key] = m
        return m

    # the declared table must be what the objects give through IDBusObject
    declared_ok = True
    w0 = hier()
    for k in reversed(range(len(KINDS))):
        try:
            o = make(k, '/t', w0)
            got = [(i.name, dict(o.getAllProperties(i.name))) for i in o.getInterfaces()]
            got = [(n, {a: (int(b) if isinstance(b, int) else str(b)) for a, b in p.items()}) for n, p in got]
        except Exception:
            got = None           # the cases themselves will show it
        if got != KINDS[k]:
            declared_ok = False
    _env.update(objects=objects, message=message, error=error, make=make, hier=hier, Conn=Conn, call_msg=call_msg,
                declared_ok=declared_ok, xml_cache={})
    return _env


# ---------------------------------------------------------------------------------------------
# observing the implementation
def canon_val(v):
    if isinstance(v, bool):
        return int(v)
    if isinstance(v, int):
        return int(v)
    if isinstance(v, (bytes, bytearray)):
        return bytes(v).decode('latin-1')
    return str(v)


def canon_ifaces(d):
    """{iface: {prop: value}} -> sorted [[iface, [[prop, value], ...]], ...]"""
    return sorted([str(n), sorted([str(k), canon_val(v)] for k, v in p.items())] for n, p in d.items())


def exc_code(e, E):
    if isinstance(e, KeyError):
        return 4
    if isinstance(e, E['error'].MarshallingError):
        return 1
    return 'exc:' + type(e).__name__


def obs_signal(raw, E):
    m = E['message'].parseMessage(raw, [])
    if type(m).__name__ == 'SignalMessage' and m.interface == OM and getattr(m, 'destination', None) is None:
        if m.member == 'InterfacesAdded' and m.signature == 'sa{sa{sv}}':
            return [0, m.path, m.body[0], canon_ifaces(m.body[1])]
        if m.member == 'InterfacesRemoved' and m.signature == 'sas':
            return [1, m.path, m.body[0], names_canon(str(x) for x in m.body[1])]
    return ['other', type(m).__name__, getattr(m, 'member', None)]


def parse_xml(xml, E):
    c = E['xml_cache'].get(xml)
    if c is None:
        root = ET.fromstring(xml)
        c = [1 if root.find('interface') is not None else 0,
             sorted(n.get('name') for n in root.findall('node'))]
        if len(E['xml_cache']) < 50000:
            E['xml_cache'][xml] = c
    return c


def obs_reply(handler, conn, path, which, E):
    msg = E['call_msg'](path, which)
    n = len(conn.sent)
    try:
        handler.handleMethodCallMessage(msg)
    except Exception as e:
        c = exc_code(e, E)
        del conn.sent[n:]
        return [4, c]
    out = conn.sent[n:]
    del conn.sent[n:]
    if len(out) != 1:
        return ['replies', len(out)]
    r = E['message'].parseMessage(out[0], [])
    if getattr(r, 'reply_serial', None) != msg.serial:
        return ['not-a-reply-to-this-call']
    t = type(r).__name__
    if t == 'ErrorMessage':
        return [0] if r.error_name == UNKNOWN_OBJECT else ['error', r.error_name]
    if t != 'MethodReturnMessage':
        return ['other', t]
    if which == 0:
        s = r.body[0] if r.body else ''
        k, _, p = s.partition(':')
        return [1, int(k) if k.isdigit() else k, p]
    if which == 1:
        return [2] + parse_xml(r.body[0], E)
    d = r.body[0]
    return [3, sorted([str(p), canon_ifaces(i)] for p, i in d.items())]


def run_impl(case, E):
    """-> per step: [exception code or None, [signal observations], queries or None]"""
    events, qpaths, every = case
    conn = E['Conn']()
    handler = E['objects'].DBusObjectHandler(conn)
    world = E['hier']() if any(ev[0] == 0 and ev[2] >= HIER_FIRST for ev in events) else None
    out = []
    for idx, ev in enumerate(events):
        exc = None
        try:
            if ev[0] == 0:
                handler.exportObject(E['make'](ev[2], ev[1], world))
            else:
                handler.unexportObject(ev[1])
        except Exception as e:
            exc = exc_code(e, E)
        last = every or idx == len(events) - 1
        # a replayed prefix (every = 0) was observed in full when it was itself a case: count its messages only
        sigs = [obs_signal(raw, E) for raw in conn.sent] if last else len(conn.sent)
        del conn.sent[:]
        qs = None
        if last:
            qs = [[obs_reply(handler, conn, q, w, E) for w in (0, 1, 2)] for q in qpaths]
        out.append([exc, sigs, qs])
    return out


# ---------------------------------------------------------------------------------------------
# decoding the model's answers into the same canonical form
def s(b):
    return b.decode('latin-1') if isinstance(b, (bytes, bytearray)) else b


def m_ifaces(l):
    """model dict ((name ((prop value) ...)) ...) -> canonical"""
    return sorted([s(n), sorted([s(k), canon_val(v)] for k, v in p)] for n, p in l)


def m_signal(o):
    """-> (exception code or None, [signals])"""
    if o[0] == 0:
        return o[1], []
    if o[1] == 0:
        return None, [[0, s(o[2]), s(o[3]), m_ifaces(o[4])]]
    return None, [[1, s(o[2]), s(o[3]), names_canon(s(x) for x in o[4])]]


def m_reply(o):
    t = o[0]
    if t == 0:
        return [0]
    if t == 1:
        return [1, o[1], s(o[2])]
    if t == 2:
        return [2, o[1], sorted(s(c) for c in o[2])]
    if t == 3:
        return [3, sorted([s(p), m_ifaces(i)] for p, i in o[1])]
    return [4, o[1]]


def declared(kind):
    return canon_ifaces(dict(KINDS[kind]))


def valid_path(p):
    if not p.startswith('/') or (len(p) > 1 and p.endswith('/')) or '//' in p:
        return False
    return all(c.isalnum() and ord(c) < 128 or c in '_/' for c in p)


# ---------------------------------------------------------------------------------------------
class PerSignature(object):
    """At most `limit` reported violations per signature, so that one frequent failure cannot use up the
    runner's list and hide a different one."""

    def __init__(self, res, limit=15):
        self.res = res
        self.limit = limit

    def violate(self, case, why, signature):
        seen = self.res.extra.setdefault('violations_by_signature', {})
        seen[signature] = seen.get(signature, 0) + 1
        if seen[signature] <= self.limit:
            self.res.violate(case, why, signature)


def oracle_step(case, idx, impl, spec_announce, res):
    """announcement of step idx against the specification"""
    exc, sigs, _ = impl
    if not spec_announce:
        if any(x and x[0] in (0, 1) for x in sigs):
            res.violate(case, 'step %d: nothing was exported or unexported, yet %r was announced' % (idx, sigs),
                        'signal:spurious')
        return
    kind, path, ident = spec_announce[0], s(spec_announce[1]), spec_announce[2]
    if kind == 0:
        want = [0, path, path, declared(ident)]
    else:
        want = [1, path, path, names_canon(n for n, _ in KINDS[ident])]
    if sigs != [want]:
        res.violate(case, 'step %d: expected exactly one %s naming %s and its interfaces, got %r (exception %r)'
                    % (idx, 'InterfacesAdded' if kind == 0 else 'InterfacesRemoved', path, sigs, exc),
                    'signal:%s-%s' % ('added' if kind == 0 else 'removed',
                                      'missing' if not sigs else ('duplicated' if len(sigs) > 1 else 'content')))


def oracle_query(case, idx, q, impl3, spec, res):
    bound, intro, children, managed = spec
    plain, xml, mgd = impl3
    where = 'step %d path %s' % (idx, q)
    # ordinary call
    if not bound:
        if plain != [0]:
            res.violate(case, '%s: not exported, ordinary call answered %r instead of UnknownObject' % (where, plain),
                        'unknown-object:call-answered-at-unexported-path')
        if mgd != [0]:
            res.violate(case, '%s: not exported, GetManagedObjects answered %r instead of UnknownObject' % (where, mgd),
                        'unknown-object:managed-answered-at-unexported-path')
    else:
        ident, path = bound[0][0], s(bound[0][1])
        if plain != [1, ident, path]:
            res.violate(case, '%s: exported object %d, ordinary call answered %r' % (where, ident, plain),
                        'unknown-object:exported-path-not-reached' if plain == [0] else 'call:wrong-object')
        want = sorted([s(p), declared(i)] for p, i in managed)
        if mgd[0] != 3:
            res.violate(case, '%s: exported, GetManagedObjects answered %r' % (where, mgd), 'managed:no-reply')
        elif mgd[1] != want:
            got_paths = [p for p, _ in mgd[1]]
            want_paths = [p for p, _ in want]
            if sorted(set(got_paths) - set(want_paths)):
                sig = 'managed:reports-path-not-beneath'
            elif sorted(set(want_paths) - set(got_paths)):
                sig = 'managed:misses-descendant'
            else:
                sig = 'managed:interfaces-or-properties'
            res.violate(case, '%s: GetManagedObjects reports %r, exported strictly beneath: %r'
                        % (where, got_paths, want_paths) if sig != 'managed:interfaces-or-properties' else
                        '%s: GetManagedObjects content %r, expected %r' % (where, mgd[1], want), sig)
    # introspection
    kids = sorted(s(c) for c in children)
    if not intro:
        if xml != [0]:
            res.violate(case, '%s: neither object nor descendants, Introspect answered %r' % (where, xml),
                        'introspect:answered-at-empty-path')
    else:
        if xml[0] != 2:
            res.violate(case, '%s: object or descendants present, Introspect answered %r' % (where, xml),
                        'introspect:fails-at-visible-path')
        elif xml[2] != kids:
            if '' in xml[2]:
                sig = 'introspect:empty-child-name'
            elif sorted(set(xml[2])) != xml[2]:
                sig = 'introspect:child-repeated'
            elif set(xml[2]) - set(kids):
                sig = 'introspect:child-not-exported'
            else:
                sig = 'introspect:child-missing'
            res.violate(case, '%s: Introspect lists children %r, immediate children among the exported paths: %r'
                        % (where, xml[2], kids), sig)


def evaluate(ctx, cases, res):
    E = env()
    cases = [[[list(e) for e in c[0]], list(c[1]), int(c[2])] for c in cases]
    if not E['declared_ok']:
        res.extra['declared_table_matches_objects'] = False
    ks = common.dump(kinds_sexp())
    lines = ['(16 %s %s %s %d)' % (ks, common.dump(c[0]), common.dump(c[1]), c[2]) for c in cases]
    outs = common.run_model(lines)
    legacy_managed = legacy_intro = 0
    nq = nsig = 0
    vres = PerSignature(res)
    for case, mo in zip(cases, outs):
        if mo == [-1]:
            raise RuntimeError('model rejected input %r' % (case,))
        events, qpaths, every = case
        wellformed = all(valid_path(e[1]) for e in events)
        io = run_impl(case, E)
        res.traces += 1
        res.count(case, nontrivial=any(e[0] == 0 for e in events))
        for idx, (im, ms) in enumerate(zip(io, mo)):
            mexc, msigs = m_signal(ms[0])
            if im[2] is None:        # replayed prefix: exception and number of messages only
                if [im[0], im[1]] != [mexc, len(msigs)]:
                    res.disagree(case, ['step', idx, im[0], im[1]], ['step', idx, mexc, len(msigs)])
                continue
            nsig += 1
            if [im[0], im[1]] != [mexc, msigs]:
                res.disagree(case, ['step', idx, im[0], im[1]], ['step', idx, mexc, msigs])
            if wellformed:
                oracle_step(case, idx, im, ms[1], vres)
            for q, i3, m6 in zip(qpaths, im[2], ms[2]):
                nq += 3
                model3 = [m_reply(m6[0]), m_reply(m6[1]), m_reply(m6[3])]
                if m6[1] != m6[2]:
                    legacy_intro += 1
                if m6[3] != m6[4]:
                    legacy_managed += 1
                if i3 != model3:
                    res.disagree(case, ['step', idx, 'path', q, i3], ['step', idx, 'path', q, model3])
                if wellformed and valid_path(q):
                    oracle_query(case, idx, q, i3, m6[5], vres)
    res.evaluations += nq + nsig - len(cases)      # res.count added one per case
    res.extra['queries_compared'] = res.extra.get('queries_compared', 0) + nq
    res.extra['steps_compared'] = res.extra.get('steps_compared', 0) + nsig
    lv = res.extra.setdefault('legacy_variants_distinguished', {'get_managed_legacy (D14)': 0, 'introspect_legacy (D29)': 0})
    lv['get_managed_legacy (D14)'] += legacy_managed
    lv['introspect_legacy (D29)'] += legacy_intro


# ---------------------------------------------------------------------------------------------
# generators
def ideal_step(state, ev):
    """state: dict path -> kind (what export / unexport mean, independent of the code)"""
    st = dict(state)
    if ev[0] == 0:
        st[ev[1]] = ev[2]
    else:
        st.pop(ev[1], None)
    return st


def gen_exhaustive(depth, nkinds):
    """Every history of length <= depth over UNIVERSE x kinds, shared by exported set: one case per
    (distinct set reached in < depth steps, event); queried iff the resulting set is new."""
    events = [[0, p, k] for p in UNIVERSE for k in range(nkinds)] + [[1, p] for p in UNIVERSE]
    seen = {frozenset(): []}
    frontier = [frozenset()]
    nhist = 1
    level = 1
    for d in range(depth):
        nxt = []
        level *= len(events)
        nhist += level
        for key in frontier:
            hist = seen[key]
            st = dict(key)
            for ev in events:
                k2 = frozenset(ideal_step(st, ev).items())
                new = k2 not in seen
                if new:
                    seen[k2] = hist + [ev]
                    nxt.append(k2)
                yield [hist + [ev], QPATHS if new else [], 0]
        frontier = nxt
    gen_exhaustive.stats = {'histories_covered': nhist, 'distinct_exported_sets': len(seen), 'events': len(events)}


def gen_literal(maxlen, nkinds):
    events = [[0, p, k] for p in UNIVERSE for k in range(nkinds)] + [[1, p] for p in UNIVERSE]
    for n in range(1, maxlen + 1):
        for h in itertools.product(events, repeat=n):
            yield [list(h), QPATHS, 0]


def gen_random(ctx, count, maxlen):
    rng = ctx.rng
    for _ in range(count):
        n = rng.randint(3, maxlen)
        h = []
        st = {}
        for _ in range(n):
            r = rng.random()
            if r < 0.55 or not st:
                ev = [0, rng.choice(UNIVERSE), rng.randrange(len(KINDS))]
            elif r < 0.9:
                ev = [1, rng.choice(sorted(st))]
            else:
                ev = [1, rng.choice(UNIVERSE + ['/zz'])]
            st = ideal_step(st, ev)
            h.append(ev)
        yield [h, QPATHS, 1]


HIER_PATHS = ['/a', '/a/b', '/a/bc', '/a/b/c']


def gen_hierarchy(ctx, count):
    """Objects whose classes form one hierarchy (base, derived, derived twice, sibling), the classes made anew
    for every case: (1) every order in which the four classes are first used (4! histories exporting one object
    of each, then unexporting them), (2) every pair of exports of two kinds of the hierarchy at two paths, each
    followed by both unexports, (3) random histories mixing them with the unrelated classes, (4) hierarchies in
    which a subclass re-declares an interface of its base under the same name."""
    rng = ctx.rng
    for perm in itertools.permutations(HIER_KINDS):
        h = [[0, p, k] for p, k in zip(HIER_PATHS, perm)]
        yield [h + [[1, p] for p in HIER_PATHS], QPATHS, 1]
    for k1 in HIER_KINDS:
        for k2 in HIER_KINDS:
            yield [[[0, '/a', k1], [0, '/a/b', k2], [1, '/a'], [1, '/a/b']], QPATHS, 1]
    # (4) one interface name declared on two classes of a hierarchy (REDECL_KINDS): every pair of kinds at parent and
    # child path, in both export orders (which class is used first), and each kind alone beneath an unrelated parent
    for k1 in REDECL_KINDS:
        for k2 in REDECL_KINDS:
            yield [[[0, '/a', k1], [0, '/a/b', k2], [1, '/a'], [1, '/a/b']], QPATHS, 1]
            yield [[[0, '/a/b', k2], [0, '/a', k1], [1, '/a/b'], [1, '/a']], QPATHS, 1]
        yield [[[0, '/', 0], [0, '/a/b/c', k1], [1, '/a/b/c']], QPATHS, 1]
    for _ in range(count):
        n = rng.randint(2, 7)
        h = []
        st = {}
        for _ in range(n):
            r = rng.random()
            if r < 0.6 or not st:
                k = rng.choice(HIER_KINDS + REDECL_KINDS) if rng.random() < 0.8 else rng.randrange(HIER_FIRST)
                ev = [0, rng.choice(UNIVERSE), k]
            else:
                ev = [1, rng.choice(sorted(st))]
            st = ideal_step(st, ev)
            h.append(ev)
        yield [h, QPATHS, 1]


def gen_malformed(ctx, count):
    rng = ctx.rng
    for b in BAD_PATHS:
        yield [[[0, '/a', 0], [0, b, 1], [0, '/a/b', 0], [1, b], [1, b]], QPATHS, 1]
        yield [[[0, b, 0], [0, '/', 1]], QPATHS, 1]
    for _ in range(count):
        h = []
        for _ in range(rng.randint(2, 6)):
            p = rng.choice(BAD_PATHS) if rng.random() < 0.4 else rng.choice(UNIVERSE)
            h.append([0, p, rng.randrange(len(KINDS))] if rng.random() < 0.65 else [1, p])
        yield [h, QPATHS, 1]


def run(ctx, res):
    depth = ctx.n(5, 7)
    lit = ctx.n(2, 3)
    res.rule = ('(a) every history of export/unexport of length <= %d over the 7-path universe %r x %d object classes, '
                'shared by exported set: one case per (set reached, next event), signal/exception of that event compared, '
                'and the %d paths %r each queried with an ordinary call, Introspect and GetManagedObjects the first time '
                'a set is reached; (b) every history of length <= %d literally, queried after the last step; (c) random '
                'histories of length 3..%d over %d object kinds queried after every step; (d) a malformed stream with '
                'ill-formed paths (model comparison only); (e) objects of one class hierarchy (base class, a class derived '
                'from it adding an interface, one derived from that, a sibling; kinds %r, the classes made anew for every '
                'case): every order of first use of the four classes, every pair of kinds at parent and child path, '
                'random histories mixing them with unrelated classes, queried after every step - a derived class '
                'exports its own interfaces and those of its bases whichever class was used first; (f) hierarchies in which '
                'one interface name is declared on two classes (kinds %r: a subclass re-declares an interface of its base '
                'under the same name and adds a property, the base revision having none or some; a further subclass '
                'declaring nothing): every pair of these kinds at parent and child path in both export orders, each alone '
                'beneath an unrelated root, and the random histories of (c) and (e) - each interface name is reported once '
                'with all readable properties the object has under that name. '
                'A case is non-trivial if it exports something; distinct by hash'
                % (depth, UNIVERSE, NKINDS_MAIN, len(QPATHS), QPATHS, lit, ctx.n(8, 12), len(KINDS), HIER_KINDS, REDECL_KINDS))
    evaluate(ctx, gen_exhaustive(depth, NKINDS_MAIN), res)
    res.extra['exhaustive_stream'] = gen_exhaustive.stats
    evaluate(ctx, gen_literal(lit, NKINDS_MAIN), res)
    evaluate(ctx, gen_random(ctx, ctx.n(200, 5000), ctx.n(8, 12)), res)
    evaluate(ctx, gen_hierarchy(ctx, ctx.n(60, 3000)), res)
    evaluate(ctx, gen_malformed(ctx, ctx.n(60, 2000)), res)
    res.exhaustive = True
    res.extra['exhaustive_scope'] = ('all export/unexport histories of length <= %d over 7 paths x %d classes up to '
                                     'equality of the exported set; all of length <= %d literally' % (depth, NKINDS_MAIN, lit))
    for c in ([[0, '/a/b', 0], [0, '/a/bc', 1]], [[0, '/', 0]], [[0, '/a/b/c', 1], [1, '/a/b/c'], [1, '/a/b/c']]):
        res.sample([c, QPATHS, 1])
