"""Independent reader for the bodies of DBus messages used by harness/c17.py.

It does not use txdbus: the body of a raw message is located from the fixed header and decoded
from the wire format directly, so that the signature written inside every variant is observed.
Values come back in the coding of Model/PyVal.v (pv_to_sexp) after the documented read-back:
  int -> [0, z]   bool -> [1, 0/1]   double -> [2, bits]   string/path/signature -> [3, utf8 bytes]
  array, struct -> [5, [...]]   array of dict entries -> [7, [[k, v], ...]]   variant -> its content
A top-level variant (type 'v' at depth 0) is returned as ('v', signature bytes, value)."""
import struct


class WireError(Exception):
    pass


ALIGN = {'y': 1, 'b': 4, 'n': 2, 'q': 2, 'i': 4, 'u': 4, 'x': 8, 't': 8, 'd': 8, 's': 4, 'o': 4, 'g': 1,
         'a': 4, '(': 8, '{': 8, 'v': 1, 'h': 4}
FIXED = {'y': 'B', 'n': 'h', 'q': 'H', 'i': 'i', 'u': 'I', 'x': 'q', 't': 'Q', 'h': 'I'}


def one_type(sig, i):
    """end index of the complete type starting at sig[i]"""
    c = sig[i]
    if c == 'a':
        return one_type(sig, i + 1)
    if c in '({':
        close = ')' if c == '(' else '}'
        j = i + 1
        while sig[j] != close:
            j = one_type(sig, j)
        return j + 1
    return i + 1


def split(sig):
    out, i = [], 0
    while i < len(sig):
        j = one_type(sig, i)
        out.append(sig[i:j])
        i = j
    return out


def pad(off, a):
    return (off + a - 1) // a * a


def dec(t, data, off, le, top=False):
    """-> (value, new offset)"""
    e = '<' if le else '>'
    c = t[0]
    off = pad(off, ALIGN[c])
    if c in FIXED:
        f = FIXED[c]
        n = struct.calcsize(f)
        if off + n > len(data):
            raise WireError('short')
        return [0, struct.unpack_from(e + f, data, off)[0]], off + n
    if c == 'b':
        v = struct.unpack_from(e + 'I', data, off)[0]
        if v not in (0, 1):
            raise WireError('boolean %d' % v)
        return [1, v], off + 4
    if c == 'd':
        return [2, struct.unpack_from(e + 'Q', data, off)[0]], off + 8
    if c in 'so':
        n = struct.unpack_from(e + 'I', data, off)[0]
        s = data[off + 4:off + 4 + n]
        if len(s) != n or data[off + 4 + n:off + 5 + n] != b'\0':
            raise WireError('string')
        return [3, bytes(s)], off + 5 + n
    if c == 'g':
        n = data[off]
        s = data[off + 1:off + 1 + n]
        if len(s) != n or data[off + 1 + n:off + 2 + n] != b'\0':
            raise WireError('signature')
        return [3, bytes(s)], off + 2 + n
    if c == 'v':
        n = data[off]
        s = bytes(data[off + 1:off + 1 + n])
        if data[off + 1 + n:off + 2 + n] != b'\0':
            raise WireError('variant signature')
        vs = s.decode('ascii')
        if len(split(vs)) != 1:
            raise WireError('variant signature %r is not one complete type' % vs)
        v, off2 = dec(vs, data, off + 2 + n, le)
        return (('v', s, v) if top else v), off2
    if c == 'a':
        n = struct.unpack_from(e + 'I', data, off)[0]
        et = t[1:]
        start = pad(off + 4, ALIGN[et[0]])
        end = start + n
        if end > len(data):
            raise WireError('array length')
        items = []
        p = start
        while p < end:
            x, p = dec(et, data, p, le, top and et[0] == '{')
            items.append(x)
        if p != end:
            raise WireError('array overrun')
        if et[0] == '{':
            if top:
                return ['dict', items], end
            d = []
            for k, v in items:           # Python dict semantics: a repeated key keeps its place, takes the new value
                for ent in d:
                    if ent[0] == k:
                        ent[1] = v
                        break
                else:
                    d.append([k, v])
            return [7, d], end
        return [5, items], end
    if c == '(':
        p = off
        out = []
        for ft in split(t[1:-1]):
            x, p = dec(ft, data, p, le)
            out.append(x)
        return [5, out], p
    if c == '{':
        kt, vt = split(t[1:-1])
        k, p = dec(kt, data, off, le)
        v, p = dec(vt, data, p, le, top)
        return [k, v], p
    raise WireError('type %r' % t)


def body_of(raw):
    """(little_endian, body bytes) of a raw message"""
    raw = bytes(raw)
    le = raw[0:1] == b'l'
    e = '<' if le else '>'
    blen = struct.unpack_from(e + 'I', raw, 4)[0]
    flen = struct.unpack_from(e + 'I', raw, 12)[0]
    start = pad(16 + flen, 8)
    body = raw[start:]
    if len(body) != blen:
        raise WireError('body length')
    return le, body


def decode_body(raw, sig, top_variants=True):
    """decode the body of a raw message against signature sig; variants directly inside the top-level
    values ('v', and the values of a top-level 'a{sv}' / 'a{sa{sv}}' are NOT tagged deeper) are tagged"""
    le, body = body_of(raw)
    out = []
    off = 0
    for t in split(sig):
        v, off = dec(t, body, off, le, top_variants)
        out.append(v)
    if off != len(body):
        raise WireError('trailing bytes')
    return out
