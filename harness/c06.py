"""C06 correspondence: the bus side of the DBus handshake.

Implementation: txdbus.authentication.BusAuthenticator inside a subclass of
txdbus.protocol.BasicDBusProtocol in server mode (_client = False), driven over a fake
transport; model: coq/Model/AuthServer.v; oracle: coq/Spec/AuthSpec.v (the DBus
specification's server state machine + the four closing rules of the property).

Two kinds of cases (encodings in coq/Model/OpsC06.v):

  ['o', [mechanism names], [verdict ...], [read ...]]
      BusAuthenticator.authenticators is replaced by scripted mechanism classes with the
      given names; the k-th call of any mechanism's step() answers the k-th verdict
      ([0] OK, [1, is_str, challenge] CONTINUE, [2] REJECTED; none left: REJECTED).
  ['c', creds, bad_keyring, [cookie ids already in the file], [action ...], split]
      the three real mechanisms; the DBUS_COOKIE_SHA1 keyring is a directory under a
      temporary directory.  An action is ['L', line] or ['CK', kind, client_challenge]:
      a DATA line answering the last challenge seen (kinds: right, wrongcookie, upper,
      onetoken, threetokens, spaces, wrongchallenge, zerohash, truncated, extended).  The reads are made from the actions while the
      conversation runs (split: 0 one line per read, 1 one byte per read, 2 two lines per
      read, 3 everything in one read after the first challenge-free prefix, 4 the NUL byte in a
      read of its own, then one line per read).  creds = 1: the peer's credentials are available
      the way the platform provides them - the code's _is_linux is set and the fake transport's
      socket answers getsockopt(SOL_SOCKET, SO_PEERCRED); the code under test fetches them
      itself; creds = 0: a platform without peer credentials.

  ['m', [cookie ids already in the file], [event ...]]
      several server connections of one bus sharing one keyring directory; every event is
      ['S', c] (connection c starts a DBUS_COOKIE_SHA1 exchange; its client then looks the
      announced id up in the keyring file as ClientAuthenticator._authGetDBusCookie does:
      first line with that id), ['F', c, kind] (the client answers: right = with the cookie
      it read, wrongcookie), ['X', c] (CANCEL), ['D', c] (the connection is dropped).
      Compared with Model/CookieStore.v after every event: the ids in the file and the
      mechanism's verdict.

Observation: the lines written (ERROR lines without their explanatory text), the verdicts
the mechanisms returned (ghost events: they let the specification be run on the same
outcomes), the first loseConnection, connectionAuthenticated, an exception escaping
dataReceived; nothing after connectionAuthenticated or an exception.  Reads are still
delivered after loseConnection: the code must ignore them."""
import hashlib
import itertools
import os
import shutil
import tempfile
import time

from harness import common

ASSUMPTIONS = [
    'an exception escaping dataReceived is the connection being dropped (Twisted\'s reactor does that); the '
    'harness stops delivering reads after one and compares "exception", never its class or text',
    'what happens after connectionAuthenticated (binary framing, D03: lines following BEGIN in the same read) '
    'belongs to C04; observation stops there',
    'the explanatory text after ERROR is free (DBus specification) and is not compared; everything else written is '
    'compared byte for byte with the model and, parsed into REJECTED <list> / OK <guid> / DATA <hex> / ERROR, with the specification',
    'the property\'s domain for the specification oracle is lines whose command word is ASCII (the DBus specification '
    'makes the protocol ASCII); on other bytes cmd.decode() raises and the connection drops - modelled for every byte '
    '>= 0x80, compared with the model on bytes that are not valid UTF-8 (0xff, 0x80), not flagged as a violation',
    'the line still being received at the end of a read closes the connection once it is longer than 16384 + 1 bytes '
    '(it may end with the \\r of a maximal line; repair D32): compared with the model and with the specification, '
    'including a 16384-byte line cut between \\r and \\n and unfinished remainders of 16384..16387 bytes',
    'scripted mechanisms answer from the script whatever the response is (outcomes are universally quantified); a '
    'script entry CONTINUE with a non-empty str challenge (ill-typed: hexlify raises) is compared with the model only',
    'concrete mechanisms: peer credentials are those of this process (pid, uid, gid), served by a fake transport.socket '
    'answering getsockopt(SOL_SOCKET, SO_PEERCRED) with protocol._is_linux set (the code under test fetches them itself, '
    'under every splitting of the reads), or absent with _is_linux unset (nothing is asked); '
    'the uid resolves in the user database (getUserName at BEGIN); user names are looked up in the real user database; '
    'the keyring directory is redirected (the keyring_dir parameter _step_one has "for testing only"); cookie entries '
    'are younger than 30 s; the .lock file protocol and chown (run as root) are not modelled',
    'EXTERNAL: the bus always challenges once (DATA with nothing) and accepts on the reply; the conforming client '
    'used for "is accepted" is the one that sends AUTH EXTERNAL without initial response and answers the challenge '
    '(txdbus\'s own client).  A client that sends its identity as initial response is in WaitingForOK, must CANCEL '
    'on the challenge and is accepted only through another mechanism: recorded as an observation (DESIGN.md section 4)',
]

GUID = b'0123456789abcdef0123456789abcdef'
MAXLINE = 16384
# the model describes the tree with D09, D10a, D10b, D11, D32 repaired; VERIF_C06_FIXES=00000 compares the
# legacy model with a tree that lacks them (development aid: shows the _legacy definitions are faithful too)
FIX = [int(c) for c in os.environ.get('VERIF_C06_FIXES', '11111')]

A, B = b'EXTERNAL', b'ANONYMOUS'     # names given to the two scripted mechanisms
ALPHABET = [
    b'AUTH', b'AUTH ' + A, b'AUTH ' + B + b' 6162', b'AUTH FOO 6162', b'AUTH ' + A + b' zz',
    b'DATA', b'DATA 6364', b'DATA xyz',
    b'BEGIN', b'CANCEL', b'ERROR', b'ERROR no thanks', b'NEGOTIATE_UNIX_FD', b'FOO bar',
]
SMALL = [b'AUTH', b'AUTH ' + A, b'AUTH ' + B + b' 6162', b'DATA', b'DATA 6364', b'BEGIN', b'CANCEL', b'ERROR']
CONSULTS_AUTH = {b'AUTH ' + A, b'AUTH ' + B + b' 6162'}
CONSULTS_DATA = {b'DATA', b'DATA 6364'}
VERDICTS = [[0], [1, 0, b'ab'], [2]]
ODD_LINES = [
    b'', b' ', b'AUTH ', b'AUTH  ' + A + b'  ', b'AUTH\t' + A, b'AUTH \t' + B + b'\t6162\t7a7a', b'auth ' + A,
    b'AUTH ' + A.lower(), b'AUTH ' + A + b' 616', b'AUTH ' + A + b' 6G', b'AUTH ' + A + b' ff', b'AUTH ' + A + b' FFfe00',
    b'DATA ', b'DATA  ', b'DATA  6162  ', b'DATA 61 62', b'DATA\t6162', b'DATA 6', b'DATA ff', b'DATA 00', b'DATA 6162\t',
    b'BEGIN now', b'BEGIN ', b' BEGIN', b'BEGIN\t', b'CANCEL x', b'ERROR', b'ERROR "x"', b'NEGOTIATE_UNIX_FD 1',
    b'OK 1234', b'REJECTED', b'AGREE_UNIX_FD', b'\xff', b'\x80AUTH', b'AUTH\xff ' + A, b'AUTH ' + A + b' \xff',
    b'DATA \xff\xfe', b'AUTH \xff', b'\r', b'\n', b'AUTH ' + A + b'\r', b'A' * 40, b'DATA ' + b'61' * 200,
    b'AUTH ' + B + b' ' + b'7a' * 50, b'_AUTH', b'AUTH.' + A, b'\x00AUTH',
]


# --------------------------------------------------------------------------
# generic helpers shared by both kinds of case
def split_reads(lines, mode, rng=None):
    """the byte stream NUL + lines, cut into reads"""
    wire = [l + b'\r\n' for l in lines]
    if mode == 0:
        reads = list(wire)
        if reads:
            reads[0] = b'\0' + reads[0]
        else:
            reads = [b'\0']
        return reads
    stream = b'\0' + b''.join(wire)
    if mode == 1:
        return [stream[i:i + 1] for i in range(len(stream))]
    if mode == 2:
        reads = [b''.join(wire[i:i + 2]) for i in range(0, len(wire), 2)]
        if reads:
            reads[0] = b'\0' + reads[0]
        else:
            reads = [b'\0']
        return reads
    if mode == 3:
        return [stream]
    # random cuts
    cuts = sorted(set(rng.randrange(1, len(stream)) for _ in range(rng.randrange(0, 6)))) if len(stream) > 1 else []
    return [stream[a:b] for a, b in zip([0] + cuts, cuts + [len(stream)])]


def dump_read(b):
    """a read for OpsC06: long runs of one byte in run-length form"""
    if len(b) < 512:
        return common.dump(b)
    pieces = []
    i = 0
    lit = bytearray()
    n = len(b)
    while i < n:
        j = i
        while j < n and b[j] == b[i]:
            j += 1
        if j - i >= 64:
            if lit:
                pieces.append(common.dump(bytes(lit)))
                lit = bytearray()
            pieces.append('(%d %s)' % (j - i, common.dump(b[i:i + 1])))
        else:
            lit += b[i:j]
        i = j
    if lit:
        pieces.append(common.dump(bytes(lit)))
    return '(' + ' '.join(pieces) + ')'


def dump_reads(reads):
    return '(' + ' '.join(dump_read(r) for r in reads) + ')'


def parse_reply(line):
    """Spec/AuthSpec.v parse_reply"""
    if b' ' in line:
        name, args = line.split(b' ', 1)
    else:
        name, args = line, b''
    if name == b'REJECTED':
        return [0, args]
    if name == b'OK':
        return [1, args]
    if name == b'DATA':
        return [2, args]
    if name == b'ERROR':
        return [3]
    if name == b'AGREE_UNIX_FD':
        return [4]
    return [5, line]


def canon_obs(obs):
    """ERROR lines lose their text; used on both the implementation's and the model's observation"""
    out = []
    for e in obs:
        if e[0] == 0 and (e[1] == b'ERROR' or e[1].startswith(b'ERROR ')):
            out.append([0, b'ERROR'])
        else:
            out.append(list(e))
    return out


def abstract(obs):
    out = []
    for e in obs:
        if e[0] == 0:
            out.append([0, parse_reply(e[1])])
        else:
            out.append(list(e))
    return out


KIND = {0: 'REJECTED', 1: 'OK', 2: 'DATA', 3: 'ERROR', 4: 'AGREE_UNIX_FD', 5: 'other-line'}


def ev_kind(e):
    if e is None:
        return 'nothing'
    if e[0] == 0:
        return KIND.get(e[1][0], '?')
    return {1: 'verdict', 2: 'close', 3: 'authenticated', 4: 'exception'}.get(e[0], '?')


def stream_lines(reads):
    s = b''.join(reads)
    return s[1:].split(b'\r\n')


def in_domain(case_reads, script):
    """may the specification oracle speak about this case (see ASSUMPTIONS)"""
    for v in script:
        if v[0] == 1 and v[1] and v[2]:
            return False
    fields = stream_lines(case_reads)
    for l in fields:
        cmd = l.split(b' ', 1)[0]
        if any(c >= 0x80 for c in cmd):
            return False
    return True


# --------------------------------------------------------------------------
# the implementation side
class PeerSocket:
    """what the bus can ask the kernel about the peer of a UNIX socket: SO_PEERCRED -> struct ucred"""

    def __init__(self, peer):
        self.peer = peer

    def getsockopt(self, level, option, buflen=None):
        import socket
        import struct
        if level == socket.SOL_SOCKET and option == 17 and self.peer is not None:
            return struct.pack('3i', *self.peer)
        raise OSError(92, 'Protocol not available')

    def fileno(self):
        return -1


class Transport:
    def __init__(self, rec, peer=None):
        self.disconnecting = False
        self.rec = rec
        if peer is not None:
            self.socket = PeerSocket(peer)

    def getHandle(self):
        return self.socket

    def write(self, data):
        self.rec.wrote(data)

    def writeSequence(self, seq):
        self.rec.wrote(b''.join(seq))

    def loseConnection(self):
        if not self.disconnecting:
            self.rec.add([2])
        self.disconnecting = True


class Recorder:
    def __init__(self):
        self.obs = []
        self.done = False       # authenticated or crashed: nothing more is observed

    def add(self, e):
        if not self.done:
            self.obs.append(e)

    def wrote(self, data):
        if data.endswith(b'\r\n'):
            self.add([0, data[:-2]])
        else:
            self.add([5, data])


class Impl:
    def __init__(self):
        from zope.interface import implementer
        import txdbus.protocol
        import txdbus.authentication
        self.protocol = txdbus.protocol
        self.auth = txdbus.authentication
        self.protocol._is_linux = False
        self.implementer = implementer
        self.saved = self.auth.BusAuthenticator.authenticators
        impl = self

        class Bus:
            uuid = GUID

        class Factory:
            bus = Bus()

        class ServerProtocol(self.protocol.BasicDBusProtocol):
            _client = False
            authenticator = self.auth.BusAuthenticator

            def connectionAuthenticated(self):
                self.rec.add([3])
                self.rec.done = True

            def rawDBusMessageReceived(self, raw):
                pass

        self.Factory = Factory
        self.ServerProtocol = ServerProtocol
        self.rec = None
        self.script = []
        self.scripted_cache = {}

    def restore(self):
        self.auth.BusAuthenticator.authenticators = self.saved
        self.protocol._is_linux = False

    # scripted mechanism classes (one per name, created once)
    def scripted(self, name):
        cls = self.scripted_cache.get(name)
        if cls is None:
            impl = self

            @self.implementer(self.auth.IBusAuthenticationMechanism)
            class Scripted:
                def getMechanismName(self):
                    return name.decode('latin-1')

                def init(self, protocol):
                    pass

                def step(self, arg):
                    v = impl.script.pop(0) if impl.script else [2]
                    impl.rec.add([1, name, v])
                    if v[0] == 0:
                        return ('OK', None)
                    if v[0] == 1:
                        return ('CONTINUE', v[2].decode('latin-1') if v[1] else v[2])
                    return ('REJECTED', None)

                def getUserName(self):
                    return 'user'

                def cancel(self):
                    pass
            cls = self.scripted_cache[name] = Scripted
        return cls

    def connect(self, peer=None):
        """peer = (pid, uid, gid): a platform with peer credentials (the code's _is_linux), the transport's socket
        answers SO_PEERCRED with them - the code under test fetches them itself, whenever it chooses to; None: a
        platform without (the code never asks)"""
        self.rec = Recorder()
        self.protocol._is_linux = peer is not None
        p = self.ServerProtocol()
        p.factory = self.Factory()
        p.rec = self.rec
        p.makeConnection(Transport(self.rec, peer))
        return p

    def deliver(self, p, data):
        """-> False when nothing more should be delivered"""
        if self.rec.done:
            return False
        try:
            p.dataReceived(data)
        except Exception:
            self.rec.add([4])
            self.rec.done = True
        return not self.rec.done

    def run_oracle_case(self, case):
        _, mechs, script, reads = case
        self.auth.BusAuthenticator.authenticators = {m: self.scripted(m) for m in mechs}
        self.script = [list(v) for v in script]
        p = self.connect()
        for r in reads:
            if not self.deliver(p, r):
                break
        return self.rec.obs


# --------------------------------------------------------------------------
# concrete mechanisms
CK_KINDS = ['right', 'wrongcookie', 'upper', 'onetoken', 'threetokens', 'spaces', 'wrongchallenge',
            'zerohash', 'truncated', 'extended']


def user_candidates():
    import pwd
    me = pwd.getpwuid(os.geteuid())
    return [me.pw_name.encode('ascii'), str(me.pw_uid).encode('ascii'), b'no_such_user_zz', b'4123456789', b'\xff\xfe']


def user_acceptable(name):
    import pwd
    try:
        s = name.decode('ascii')
    except UnicodeDecodeError:
        return False
    try:
        try:
            uid = int(s)
        except ValueError:
            pwd.getpwnam(s)
            return True
        s = pwd.getpwuid(uid).pw_name
        pwd.getpwnam(s)
        return True
    except (KeyError, OverflowError):
        return False


class ConcreteRun:
    """one conversation with the real mechanisms; builds the reads from the actions"""

    def __init__(self, im, case, keyring):
        self.im = im
        self.case = case
        self.keyring = keyring
        self.chals = []
        self.cookies = []
        self.sha = []
        self.verdicts = []
        self.vnames = []
        self.reads = []
        self.ck_expect = []     # (index into verdicts, kind)

    def classes(self):
        im, run = self.im, self
        auth = im.auth

        def logged(name, base, redirect):
            class Logged(base):
                def step(self, arg):
                    r = base.step(self, arg)
                    st, ch = r
                    if st == 'OK':
                        v = [0]
                    elif st == 'CONTINUE':
                        v = [1, 1, ch.encode('latin-1')] if isinstance(ch, str) else [1, 0, bytes(ch)]
                        if name == b'DBUS_COOKIE_SHA1':
                            run.chals.append(self.challenge_str)
                            run.cookies.append(self.cookie)
                    else:
                        v = [2]
                    run.verdicts.append(v)
                    run.vnames.append(name)
                    im.rec.add([1, name, v])
                    return r
            if redirect:
                def _step_one(self, username, keyring_dir=None):
                    return base._step_one(self, username, run.keyring)
                Logged._step_one = _step_one
            return Logged
        return {b'EXTERNAL': logged(b'EXTERNAL', auth.BusExternalAuthenticator, False),
                b'DBUS_COOKIE_SHA1': logged(b'DBUS_COOKIE_SHA1', auth.BusCookieAuthenticator, True),
                b'ANONYMOUS': logged(b'ANONYMOUS', auth.BusAnonymousAuthenticator, False)}

    def cookie_file(self):
        return os.path.join(self.keyring, self.im.auth.BusCookieAuthenticator.cookieContext)

    def store(self):
        try:
            with open(self.cookie_file(), 'rb') as f:
                return [int(l.split()[0]) for l in f if l.strip()]
        except OSError:
            return []

    def last_challenge(self):
        """what a client knows: the last DATA line written, decoded"""
        for e in reversed(self.im.rec.obs):
            if e[0] == 0 and e[1].startswith(b'DATA '):
                try:
                    return bytes.fromhex(e[1][5:].decode('ascii')).split()
                except (ValueError, UnicodeDecodeError):
                    return None
        return None

    def cookie_for(self, cid):
        try:
            with open(self.cookie_file(), 'rb') as f:
                for l in f:
                    t = l.split()
                    if len(t) == 3 and t[0] == cid:
                        return t[2]
        except OSError:
            pass
        return b'00'

    def ck_line(self, kind, cc):
        ch = self.last_challenge()
        if not ch or len(ch) != 3:
            ctx, cid, sc = b'x', b'1', b'00'
        else:
            ctx, cid, sc = ch
        cookie = self.cookie_for(cid)
        right = hashlib.sha1(sc + b':' + cc + b':' + cookie).hexdigest().encode('ascii')
        self.sha.append([sc + b':' + cc + b':' + cookie, right])
        if kind == 'right':
            resp = cc + b' ' + right
        elif kind == 'wrongcookie':
            resp = cc + b' ' + hashlib.sha1(sc + b':' + cc + b':' + b'00' + cookie).hexdigest().encode('ascii')
        elif kind == 'wrongchallenge':
            resp = cc + b' ' + hashlib.sha1(sc + b'0:' + cc + b':' + cookie).hexdigest().encode('ascii')
        elif kind == 'zerohash':
            resp = cc + b' 00'
        elif kind == 'truncated':
            resp = cc + b' ' + right[:-1]
        elif kind == 'extended':
            resp = cc + b' ' + right + b'0'
        elif kind == 'upper':
            resp = cc + b' ' + right.upper()
        elif kind == 'onetoken':
            resp = right
        elif kind == 'threetokens':
            resp = cc + b' ' + right + b' ' + right
        else:   # spaces: extra white space around the two tokens is still the right answer
            resp = b'  ' + cc + b' \t ' + right + b' '
        return b'DATA ' + resp.hex().encode('ascii')

    def run(self):
        im = self.im
        _, creds, bad_keyring, store0, actions, split = self.case[:6]
        im.auth.BusAuthenticator.authenticators = self.classes()
        if bad_keyring or store0:
            os.mkdir(self.keyring, 0o700)
        if store0:
            now = str(int(time.time())).encode('ascii')
            with open(self.cookie_file(), 'wb') as f:
                for i in store0:
                    f.write(b'%d %s %s\n' % (i, now, (b'%02x' % (i % 256)) * 24))
        if bad_keyring:
            os.chmod(self.keyring, 0o777)
        p = im.connect((os.getpid(), os.geteuid(), os.getegid()) if creds else None)
        pending = b'\0'
        alive = True
        lone_nul = split == 4        # the credentials byte in a read of its own (a sendmsg of its own in libdbus), then
        if lone_nul:                 # one line per read
            split = 0

        def send(data):
            nonlocal alive
            if not data:
                return
            self.reads.append(data)
            if alive:
                alive = im.deliver(p, data)

        if lone_nul:
            send(pending)
            pending = b''
        for k, act in enumerate(actions):
            if act[0] == 'L':
                line = act[1]
            else:
                # a response needs every earlier line delivered
                send(pending)
                pending = b''
                line = self.ck_line(act[1], act[2])
                o = im.rec.obs
                # the response will be looked at by the cookie mechanism iff its challenge is the last thing that happened
                if alive and not p.transport.disconnecting and len(o) >= 2 and o[-1][0] == 0 \
                        and o[-1][1].startswith(b'DATA') and o[-2][0] == 1 and o[-2][1] == b'DBUS_COOKIE_SHA1' \
                        and o[-2][2][0] == 1:
                    self.ck_expect.append((len(self.verdicts), act[1]))
            wire = line + b'\r\n'
            if split == 0:
                send(pending + wire)
                pending = b''
            elif split == 1:
                for c in pending + wire:
                    send(bytes([c]))
                pending = b''
            elif split == 2:
                if pending.count(b'\r\n') >= 1:
                    send(pending + wire)
                    pending = b''
                else:
                    pending += wire
            else:
                pending += wire
        send(pending)
        return im.rec.obs


class MultiRun:
    """several connections of one bus, one keyring; see the 'm' case kind"""

    def __init__(self, im, case, keyring):
        self.im = im
        self.case = case
        self.base = ConcreteRun(im, ['c', 0, 0, [], [], 0], keyring)
        self.obs = []            # per event: [ids in the file, verdict or None]
        self.model_events = []
        self.sha = []
        self.expect_ok = []      # indices of events that are conforming answers of a live exchange
        self.vanished = []       # ... at which the cookie the bus named in the still outstanding challenge is no longer in the keyring

    def client_lookup(self, cid):
        """ClientAuthenticator._authGetDBusCookie: the first line whose id matches"""
        try:
            with open(self.base.cookie_file(), 'rb') as f:
                for line in f:
                    try:
                        k_id, k_time, k_cookie = line.split()
                        if k_id == cid:
                            return k_cookie
                    except ValueError:
                        pass
        except OSError:
            pass
        return None

    def run(self):
        im, base = self.im, self.base
        _, store0, events = self.case
        im.auth.BusAuthenticator.authenticators = base.classes()
        os.mkdir(base.keyring, 0o700)
        self.entries0 = []
        if store0:
            now = str(int(time.time())).encode('ascii')
            with open(base.cookie_file(), 'wb') as f:
                for i in store0:
                    ck = (b'%02x' % (i % 256)) * 24
                    self.entries0.append([i, ck])
                    f.write(b'%d %s %s\n' % (i, now, ck))
        user = user_candidates()[0].hex().encode('ascii')
        conns = {}
        for n, ev in enumerate(events):
            kind, c = ev[0], ev[1]
            verdict = None
            nv = len(base.verdicts)
            if kind == 'S':
                p = im.connect()
                conns[c] = {'p': p, 'rec': im.rec, 'live': False}
                im.deliver(p, b'\0AUTH DBUS_COOKIE_SHA1 ' + user + b'\r\n')
                o = im.rec.obs
                if o and o[-1][0] == 0 and o[-1][1].startswith(b'DATA '):
                    ctx_, cid, sc = bytes.fromhex(o[-1][1][5:].decode('ascii')).split()
                    conns[c].update(live=True, cid=cid, sc=sc, cookie=self.client_lookup(cid),
                                    server_cookie=base.cookies[-1])
                self.model_events.append([0, c])
            elif kind == 'F':
                k = conns[c]
                im.rec = k['rec']
                cc = b'c%d' % c
                cookie = k['cookie'] if ev[2] == 'right' and k['cookie'] is not None else b'00'
                resp = cc + b' ' + hashlib.sha1(k['sc'] + b':' + cc + b':' + cookie).hexdigest().encode('ascii')
                tohash = k['sc'] + b':' + cc + b':' + k['server_cookie']
                self.sha.append([tohash, hashlib.sha1(tohash).hexdigest().encode('ascii')])
                if ev[2] == 'right':
                    self.expect_ok.append(n)
                    if k['cookie'] is not None and self.client_lookup(k['cid']) is None:
                        # a conforming client may just as well read the keyring now, when it answers
                        self.vanished.append(n)
                im.deliver(k['p'], b'DATA ' + resp.hex().encode('ascii') + b'\r\n')
                k['live'] = False
                if len(base.verdicts) > nv:
                    verdict = base.verdicts[-1]
                self.model_events.append([1, c, resp])
            elif kind == 'X':
                k = conns[c]
                im.rec = k['rec']
                im.deliver(k['p'], b'CANCEL\r\n')
                k['live'] = False
                self.model_events.append([2, c])
            else:
                conns[c]['live'] = False
                self.model_events.append([3, c])
            self.obs.append([base.store(), verdict])
        self.crashed = any(([4] in k['rec'].obs) for k in conns.values())
        return self.obs


# --------------------------------------------------------------------------
def evaluate(ctx, cases, res):
    im = Impl()
    tmp = tempfile.mkdtemp(prefix='c06-')
    stats = res.extra.setdefault('outcomes', {})
    try:
        impl_obs = []
        lines = []
        second = []          # concrete cases: (index, spec request line)
        runs = {}
        for n, case in enumerate(cases):
            if case[0] == 'm':
                run = MultiRun(im, case, os.path.join(tmp, 'k%d' % n))
                obs = run.run()
                runs[n] = run
                lines.append('(6 2 0 %s %s %s %s %s)' % (
                    common.dump(run.base.cookies), common.dump(run.base.chals), common.dump(run.sha),
                    common.dump(run.entries0), common.dump(run.model_events)))
                shutil.rmtree(run.base.keyring, ignore_errors=True)
            elif case[0] == 'o':
                obs = im.run_oracle_case(case)
                lines.append('(6 0 %s %s %s %s %s)' % (
                    common.dump(FIX), common.dump(case[1]), common.dump(GUID),
                    common.dump(case[2]), dump_reads(case[3])))
            else:
                run = ConcreteRun(im, case, os.path.join(tmp, 'k%d' % n))
                obs = run.run()
                runs[n] = run
                users = [u for u in user_candidates() if user_acceptable(u)] if not case[2] else []
                lines.append('(6 1 %s %s %d %s %s %s %s %s %s %s)' % (
                    common.dump(FIX), common.dump(GUID), 1 if case[1] else 0, common.dump(users),
                    common.dump(im.auth.BusCookieAuthenticator.cookieContext.encode('ascii')),
                    common.dump(run.chals), common.dump(run.cookies), common.dump(run.sha),
                    common.dump(list(case[3])), dump_reads(run.reads)))
                second.append((n, '(6 0 %s %s %s %s %s)' % (
                    common.dump(FIX), common.dump([b'EXTERNAL', b'DBUS_COOKIE_SHA1', b'ANONYMOUS']),
                    common.dump(GUID), common.dump(run.verdicts), dump_reads(run.reads))))
                run.final_store = run.store()
                shutil.rmtree(run.keyring, ignore_errors=True)
            impl_obs.append(obs)
        outs = common.run_model(lines + [l for _, l in second])
        spec_for = {n: outs[len(lines) + k][1] for k, (n, _) in enumerate(second)}
        for n, case in enumerate(cases):
            if case[0] == 'm':
                run = runs[n]
                impl = [[ids, v] for ids, v in impl_obs[n]]
                model = [[ids, (v[0] if v else None)] for ids, v in outs[n]]
                stats['overlapping'] = stats.get('overlapping', 0) + 1
                res.count(case, nontrivial=len(case[2]) >= 2)
                if impl != model or run.crashed:
                    res.disagree(case, [impl, run.crashed], [model, False])
                for k in run.expect_ok:
                    if impl[k][1] != [0]:
                        res.violate(case, 'event %d: a conforming client that read the cookie for the id it was given '
                                    'was not accepted by DBUS_COOKIE_SHA1 while other exchanges overlap (verdict %r, ids in '
                                    'the file after each event %r)' % (k, impl[k][1], [i for i, _ in impl]),
                                    'conforming-client-not-accepted:DBUS_COOKIE_SHA1:overlapping')
                for k in run.vanished:
                    res.violate(case, 'event %d: the cookie the bus named in a challenge that is still outstanding had been in the '
                                'keyring and is gone from it before the client answers (another exchange ended in between): a '
                                'conforming client that reads its keyring when it answers cannot present the right cookie '
                                '(ids in the file after each event %r)' % (k, [i for i, _ in impl]),
                                'conforming-client-not-accepted:DBUS_COOKIE_SHA1:cookie-of-outstanding-challenge-removed')
                continue
            obs = canon_obs(impl_obs[n])
            if case[0] == 'o':
                model, spec = canon_obs(outs[n][0]), outs[n][1]
                reads, script = case[3], case[2]
                impl_cmp, model_cmp = obs, model
            else:
                run = runs[n]
                model, spec = canon_obs(outs[n][0]), spec_for[n]
                reads, script = run.reads, run.verdicts
                impl_cmp, model_cmp = [obs, run.final_store], [model, outs[n][1]]
            last = ev_kind(abstract(obs)[-1]) if obs else 'nothing'
            stats[last] = stats.get(last, 0) + 1
            res.count(case, nontrivial=len(obs) >= 2)
            if impl_cmp != model_cmp:
                res.disagree(case, impl_cmp, model_cmp)
            # ---- oracle: the specification -------------------------------------
            if in_domain(reads, script):
                a = abstract(obs)
                if a != spec:
                    k = 0
                    while k < len(a) and k < len(spec) and a[k] == spec[k]:
                        k += 1
                    ie = a[k] if k < len(a) else None
                    se = spec[k] if k < len(spec) else None
                    res.violate(case, 'event %d: the bus did %s where the DBus state machine prescribes %s '
                                '(observed %r, prescribed %r)' % (k, ev_kind(ie), ev_kind(se), a, spec),
                                'bus:%s spec:%s' % (ev_kind(ie), ev_kind(se)))
            if case[0] == 'c':
                run = runs[n]
                for idx, kind in run.ck_expect:
                    if idx >= len(run.verdicts) or run.vnames[idx] != b'DBUS_COOKIE_SHA1':
                        res.violate(case, 'a response to a DBUS_COOKIE_SHA1 challenge was not handed to the mechanism',
                                    'cookie-response-not-examined')
                        continue
                    accepted = run.verdicts[idx] == [0]
                    if kind in ('right', 'spaces'):
                        if not accepted:
                            res.violate(case, 'the correct DBUS_COOKIE_SHA1 response was not accepted',
                                        'right-cookie-not-accepted')
                    elif accepted:
                        res.violate(case, 'a wrong DBUS_COOKIE_SHA1 response (%s) was accepted' % kind,
                                    'wrong-cookie-accepted')
                if len(case) > 6 and case[6]:
                    if [3] not in obs:
                        res.violate(case, 'a conforming client with acceptable credentials (%s) was not authenticated'
                                    % case[6], 'conforming-client-not-accepted:%s' % case[6])
    finally:
        im.restore()
        shutil.rmtree(tmp, ignore_errors=True)


# --------------------------------------------------------------------------
# generation
def consultations(seq):
    return sum(1 for l in seq if l in CONSULTS_AUTH or l in CONSULTS_DATA)


def scripts_for(seq, how):
    """how = 'all': every script of verdicts as long as the number of lines of seq that can reach a
    mechanism; 'const': the three constant scripts (every consultation answered alike)"""
    n = consultations(seq)
    if how == 'all' or n <= 1:
        return itertools.product(VERDICTS, repeat=n)
    return [tuple([v] * n) for v in VERDICTS]


def gen_exhaustive(alphabet, lengths, modes, how='all', rotate=False):
    """every line sequence of the given lengths x scripts x splittings (rotate: one splitting per case, in turn)"""
    k = 0
    for n in lengths:
        for seq in itertools.product(alphabet, repeat=n):
            if n > 1 and seq[0] == b'BEGIN':
                continue        # closes at once: the shorter sequences cover it
            for sc in scripts_for(seq, how):
                if rotate:
                    ms = [modes[k % len(modes)]]
                    k += 1
                else:
                    ms = modes
                for m in ms:
                    yield ['o', [A, B], [list(v) for v in sc], split_reads(list(seq), m)]


def gen_random(ctx, count, length):
    rng = ctx.rng
    verd = VERDICTS + [[1, 0, b''], [1, 1, b''], [1, 0, bytes(range(0, 256, 17))], [2], [2]]
    for _ in range(count):
        p_rej = rng.choice([0.2, 0.5, 0.8])
        seq = []
        for _ in range(rng.randrange(1, length + 1)):
            r = rng.random()
            if r < 0.75:
                pool = SMALL if rng.random() < p_rej else ALPHABET
                seq.append(rng.choice(pool))
            elif r < 0.95:
                seq.append(rng.choice(ODD_LINES))
            else:
                seq.append(bytes(rng.randrange(32, 127) for _ in range(rng.randrange(0, 12))))
        if rng.random() < 0.5:
            # keep BEGIN rare so that long conversations survive
            seq = [l for l in seq if not l.startswith(b'BEGIN') or rng.random() < 0.15]
        script = [list(rng.choice(verd)) for _ in range(rng.randrange(0, length))]
        if rng.random() < 0.03:
            script.insert(rng.randrange(0, len(script) + 1), [1, 1, b'str'])
        mechs = rng.choice([[A, B], [A, B], [B], [b'X', b'DBUS_COOKIE_SHA1', A], []])
        yield ['o', mechs, script, split_reads(seq, rng.choice([0, 1, 2, 3, 4, 4]), rng)]


def gen_framing(ctx):
    """first byte, length limit, reads after close"""
    rng = ctx.rng
    ok = b'AUTH ' + B
    for first in [b'', b'\0', b'\1', b'A', b'\0\0', b'\xff']:
        for rest in [[ok + b'\r\nBEGIN\r\n'], [ok + b'\r\n', b'BEGIN\r\n'], [b'\0' + ok + b'\r\n'], []]:
            reads = [first + rest[0]] + rest[1:] if rest else [first]
            reads = [r for r in reads if r] or [b'\0']
            yield ['o', [A, B], [[0], [0]], reads]
    yield ['o', [A, B], [[0]], [b'\0', ok + b'\r\n', b'BEGIN\r\n']]
    for n in [MAXLINE - 1, MAXLINE, MAXLINE + 1, MAXLINE + 2, 17000]:
        for prefix in [[], [b'AUTH'], [ok]]:
            for body in [b'AUTH ' + B + b' ', b'FOO ']:
                long_line = body + b'6' * (n - len(body))
                seq = prefix + [long_line, b'AUTH', b'BEGIN']
                for m in (0, 2, 3):
                    yield ['o', [A, B], [[0], [0]], split_reads(seq, m)]
                stream = b'\0' + b''.join(l + b'\r\n' for l in seq)
                cut = stream.index(long_line) + len(long_line)
                for c in (cut - 1, cut, cut + 1, cut + 2):
                    yield ['o', [A, B], [[0], [0]], [stream[:c], stream[c:]]]
                # unfinished remainders around the bound, with and without the pending \\r
                for tail in (b'', b'\r', b'x'):
                    yield ['o', [A, B], [[0], [0]], [b'\0' + b''.join(l + b'\r\n' for l in prefix) + long_line + tail]]
                    yield ['o', [A, B], [[0], [0]], [b'\0' + b''.join(l + b'\r\n' for l in prefix) + long_line + tail,
                                                     b'\nAUTH\r\n']]
                # never terminated: only the buffer check can close
                yield ['o', [A, B], [[0], [0]], [b'\0' + long_line[:5000], long_line[5000:], b'\r\nAUTH\r\n']]
    # reads after the connection was closed must be ignored
    for closing in [[b'BEGIN'], [b'AUTH'] * 6, [b'DATA', b'BEGIN']]:
        for after in [[b'AUTH ' + B, b'BEGIN'], [b'AUTH'], [b'ERROR', b'FOO']]:
            for m in (0, 1, 2, 3):
                yield ['o', [A, B], [[0], [0]], split_reads(closing + after, m)]


def concrete_lines(users):
    ls = [b'AUTH EXTERNAL', b'AUTH EXTERNAL ' + b'0'.hex().encode(), b'AUTH ANONYMOUS',
          b'AUTH ANONYMOUS ' + b'txdbus'.hex().encode(), b'AUTH DBUS_COOKIE_SHA1', b'AUTH', b'AUTH KERBEROS',
          b'DATA', b'DATA 6162', b'DATA zz', b'BEGIN', b'CANCEL', b'ERROR', b'NEGOTIATE_UNIX_FD', b'HELLO']
    for u in users:
        ls.append(b'AUTH DBUS_COOKIE_SHA1 ' + u.hex().encode('ascii'))
    return ls


def gen_concrete(ctx, count):
    rng = ctx.rng
    users = user_candidates()
    good = [u for u in users if user_acceptable(u)]
    cookie_auth = [b'AUTH DBUS_COOKIE_SHA1 ' + u.hex().encode('ascii') for u in good]
    # the conforming clients of the "is accepted" clause (last field names them)
    for split in (0, 1, 2, 3, 4):
        yield ['c', 1, 0, [], [['L', b'AUTH EXTERNAL'], ['L', b'DATA'], ['L', b'BEGIN']], split, 'EXTERNAL']
        yield ['c', 0, 0, [], [['L', b'AUTH ANONYMOUS'], ['L', b'BEGIN']], split, 'ANONYMOUS']
        yield ['c', 0, 0, [], [['L', b'AUTH ANONYMOUS ' + b'txdbus'.hex().encode()], ['L', b'BEGIN']], split, 'ANONYMOUS']
        for ca in cookie_auth:
            for store0 in ([], [1], [2, 5]):
                yield ['c', 0, 0, store0, [['L', ca], ['CK', 'right', b'c1c2'], ['L', b'BEGIN']], split, 'DBUS_COOKIE_SHA1']
        # the full preference list of a client without usable EXTERNAL: falls through to the cookie
        yield ['c', 0, 0, [], [['L', b'AUTH EXTERNAL'], ['L', cookie_auth[0]], ['CK', 'right', b'77'], ['L', b'BEGIN']],
               split, 'EXTERNAL-then-DBUS_COOKIE_SHA1']
    # every kind of response, then BEGIN
    for kind in CK_KINDS:
        for store0 in ([], [3]):
            for ca in cookie_auth[:1]:
                for split in (0, 1):
                    yield ['c', 0, 0, store0, [['L', ca], ['CK', kind, b'abcdef'], ['L', b'BEGIN']], split, None]
                    yield ['c', 1, 0, store0, [['L', ca], ['CK', kind, b'abcdef'], ['L', ca], ['CK', 'right', b'01'],
                                               ['L', b'BEGIN']], split, None]
    lines = concrete_lines(users)
    for _ in range(count):
        acts = []
        for _ in range(rng.randrange(1, 9)):
            r = rng.random()
            if r < 0.22:
                acts.append(['L', rng.choice(cookie_auth)])
            elif r < 0.45:
                acts.append(['CK', rng.choice(CK_KINDS + ['right', 'right']), bytes(rng.choice(b'abcdef0123') for _ in range(rng.randrange(1, 9)))])
            else:
                acts.append(['L', rng.choice(lines)])
        yield ['c', rng.randrange(2), 1 if rng.random() < 0.08 else 0, rng.choice([[], [], [1], [4, 9], [1, 2]]),
               acts, rng.randrange(0, 5), None]


def gen_multi(max_exchanges, kinds, stores=([], [5])):
    """every interleaving of start / finish / cancel / drop of up to max_exchanges cookie exchanges, each on
    its own connection (connections start in index order), on an empty and on a non-empty keyring"""
    def rec(seq, state):
        if seq:
            yield list(seq)
        started = [c for c in range(max_exchanges) if state[c] > 0]
        nxt = len(started)
        if nxt < max_exchanges:
            state[nxt] = 1
            yield from rec(seq + [['S', nxt]], state)
            state[nxt] = 0
        for c in range(max_exchanges):
            if state[c] == 1:
                state[c] = 2
                for k in kinds:
                    yield from rec(seq + [['F', c, k]], state)
                yield from rec(seq + [['X', c]], state)
                yield from rec(seq + [['D', c]], state)
                state[c] = 1
    for seq in rec([], [0] * max_exchanges):
        # a story is worth running when it ends with an answer (the oracle looks at answers) or when
        # nothing but answers could follow (every connection started; the file's final content is compared)
        starts = sum(1 for e in seq if e[0] == 'S')
        if seq[-1][0] == 'F' or (starts == max_exchanges and seq[-1][0] != 'S'):
            for store0 in stores:
                yield ['m', list(store0), seq]


def run(ctx, res):
    q = ctx.quick
    res.rule = (
        'scripted mechanisms over the 14-line alphabet %r: every sequence of <= %d lines x every script of verdicts (OK / '
        'CONTINUE / REJECTED per consultation of a mechanism) x {one line per read, one byte per read, two lines per read}; '
        'every sequence of %d lines x the three constant scripts (splittings in rotation); over the 8-line alphabet %r every '
        'sequence of <= %d lines x constant scripts (rotation) - long enough to cross the rejection limit; random conversations '
        'of up to 40 lines with odd lines, mechanism lists, random cuts; first byte / 16 KiB limit / reads after close; the real '
        'EXTERNAL, DBUS_COOKIE_SHA1 (temporary keyring) and ANONYMOUS mechanisms with faked credentials, conforming clients and '
        'random conversations, peer credentials fetched by the code itself from a fake SO_PEERCRED socket under five splittings (one '
        'with the NUL byte in a read of its own); several connections sharing one keyring: every interleaving of start / finish / cancel / drop of '
        'up to 3 overlapping DBUS_COOKIE_SHA1 exchanges with clients that look their cookie up by id.  Non-trivial: at least two observed events'
        % ([a.decode() for a in ALPHABET], 3 if q else 4, 4 if q else 5, [a.decode() for a in SMALL], 5 if q else 6))
    # command words outside the protocol for which THIS tree nevertheless has a handler (open getattr dispatch on
    # '_auth_' + word): none on a correct tree (C06_commands_from_source breaks otherwise); they join the alphabets
    from txdbus import authentication as _auth
    known = {'AUTH', 'BEGIN', 'CANCEL', 'DATA', 'ERROR', 'NEGOTIATE_UNIX_FD'}
    extra = [n[len('_auth_'):].encode('latin-1') for n in sorted(dir(_auth.BusAuthenticator))
             if n.startswith('_auth_') and n[len('_auth_'):] not in known]
    alpha14 = ALPHABET + extra + [e + b' 6162' for e in extra]
    small8 = SMALL + extra
    batches = [
        ('exhaustive-14-all-scripts', gen_exhaustive(alpha14, range(0, 4 if q else 5), [0, 1, 2])),
        ('exhaustive-14-constant-scripts', gen_exhaustive(alpha14, [4] if q else [5], [0, 1, 2], 'const', True)),
        ('exhaustive-8-constant-scripts', gen_exhaustive(small8, [5] if q else [5, 6], [0, 1, 2], 'const', True)),
        ('framing', gen_framing(ctx)),
        ('random', gen_random(ctx, ctx.n(3000, 60000), 40)),
        ('concrete', gen_concrete(ctx, ctx.n(600, 12000))),
        ('overlapping-cookie-exchanges', gen_multi(3, ['right'], ([],)) if q else gen_multi(3, ['right', 'wrongcookie'])),
    ]
    dist = {}
    for name, g in batches:
        chunk = []
        total = 0
        first = True
        for c in g:
            chunk.append(c)
            if len(chunk) >= 40000:
                evaluate(ctx, chunk, res)
                total += len(chunk)
                chunk = []
        if chunk:
            evaluate(ctx, chunk, res)
            total += len(chunk)
            res.sample(chunk[len(chunk) // 2])
        dist[name] = total
    res.extra['input_distribution'] = dist
    res.exhaustive = True
    res.extra['exhaustive_scope'] = (
        'line sequences of length <= %d over 14 lines with every script of mechanism verdicts and three splittings; '
        'length %d over 14 lines and <= %d over 8 lines with constant scripts'
        % (3 if q else 4, 4 if q else 5, 5 if q else 6))
