"""C09 with SEVERAL connect() calls in one process on the same reactor, most of them with the same bus address string
(a program that connects again after its connection was lost or refused, or that opens a second connection to the
same bus).

Unlike harness/c09.py nothing of txdbus is wrapped here: client.connect() runs with the real getDBusEndpoints and the
real Twisted client endpoints it builds; the reactor handed to connect() is a task.Clock that also records
connectUNIX / connectTCP (the attempts, with the target they go to) and the harness completes or fails each attempt
through the factory the endpoint passed in (clientConnectionFailed / buildProtocol + makeConnection on a fake transport).
Whatever connect() and getDBusEndpoints keep between two calls is therefore in play.

A case is ['re', first serial, [[address entries, events], ...]]: round r calls connect() with its address list
when round r-1 has run its events (whether or not that connection was lost: connections left alive stay alive);
events as in harness/c09.py.  The first serial of a later round is wherever the process-wide counter stands then.

Judged per round: every connect() is a connecting history of its own, so each round must agree with Model/Connect.v
run ALONE on the round's events (correspondence) and its Deferred must fire as Spec/ConnectSpec.v demands of those
events (oracle).  In addition, straight from the property text ("the first reachable address of the bus address list
(tried in listed order)"): the targets of the attempts a round makes are the usable entries of ITS address list, in
listed order, from the first one - computed from the address table of harness/c09.py, not from the implementation."""
from harness import common
from harness import c08


class _Connector:
    def stopConnecting(self):
        pass

    def disconnect(self):
        pass

    def getDestination(self):
        return None


class _Attempt:
    def __init__(self, target, wf):
        self.target, self.wf = target, wf
        self.d = wf._onConnection      # not None while the attempt is unanswered (as FakeEndpoint.d)
        self.idx = 0


def make_reactor(im):
    class RecordingReactor(im.task.Clock):
        """virtual time plus a record of the outgoing connection attempts"""

        def __init__(self):
            im.task.Clock.__init__(self)
            self.tried = []

        def connectUNIX(self, address, factory, timeout=30, checkPID=0):
            self.tried.append(_Attempt(['unix', address], factory))
            return _Connector()

        def connectTCP(self, host, port, factory, timeout=30, bindAddress=None):
            self.tried.append(_Attempt(['tcp', host, port], factory))
            return _Connector()

    return RecordingReactor()


def make_driver(c09, im, case, reactor):
    class ReDriver(c09.Driver):
        """one connect() of a case; the endpoints are the real ones, the reactor is shared by all rounds"""

        def __init__(self):
            c09.Driver.__init__(self, im, case, shared_clock=reactor)
            self.mine = []         # the attempts this connect() made

        def collect(self, n0):
            for a in reactor.tried[n0:]:
                a.idx = len(self.mine)
                self.mine.append(a)
                self.attempts.append(a.target)

        def start(self):
            self.clock = reactor
            self.s0 = im.message.DBusMessage._nextSerial
            im.client.reactor = reactor
            text = ';'.join(c09.ADDR_TEXT[(k, v)][0] for k, v in self.addr)
            n0 = len(reactor.tried)
            try:
                d = im.client.connect(reactor, text)
            except Exception as ex:
                self.connect_raised = '%s: %s' % (type(ex).__name__, ex)
                return
            finally:
                self.collect(n0)
            d.addCallbacks(self._on_ready, self._on_failed)

        def apply(self, i, e):
            n0 = len(reactor.tried)
            try:
                c09.Driver.apply(self, i, e)
            finally:
                self.collect(n0)

        def outstanding_ep(self):
            for a in self.mine:
                if a.d is not None:
                    return a
            return None

        def resolve_endpoint(self, ep, t, inside_connect=False):
            d, ep.d = ep.d, None
            if t == 0:
                kinds = c09.endpoint_failures(im)
                n = self.fail_count
                self.fail_count += 1
                exc = kinds[(n + ep.idx + len(self.events) + self.s0) % len(kinds)](ep.idx)
                self.fail_kinds.append(type(exc).__name__)
                ep.wf.clientConnectionFailed(None, im.failure.Failure(exc))
                d.addErrback(lambda f: self.ep_leftover.append(f.type.__name__))
            else:
                p = ep.wf.buildProtocol(None)
                self.proto = p._wrappedProtocol
                self.srv = 'auth'
                p.makeConnection(c08.FakeTransport())

    return ReDriver()


def run_impl(c09, im, case):
    _, s0, rounds = case
    reactor = make_reactor(im)
    im.message.DBusMessage._nextSerial = s0
    drivers, out = [], []
    for addr, events in rounds:
        drv = make_driver(c09, im, [addr, None, events], reactor)
        drv.others = list(drivers)
        for o in drivers:
            o.others.append(drv)
        drivers.append(drv)
        drv.start()
        r = {'s0': drv.s0, 'init': None if drv.connect_raised else list(drv.fired), 'steps': [], 'drv': drv}
        out.append(r)
        if drv.connect_raised:
            continue
        for i, e in enumerate(events):
            marks = (len(drv.fired), len(drv.done), len(drv.ran), len(drv.objdone))
            drv.raised = False
            try:
                drv.apply(i, e)
            except Exception as ex:
                if isinstance(ex, ValueError) and 'bad ' in str(ex):
                    raise
                drv.faults.append('event %d: %s: %s' % (i, type(ex).__name__, ex))
            r['steps'].append(drv.observe(marks))
    d0 = [len(d.done) for d in drivers]
    try:
        reactor.advance(100000)
    except Exception as ex:
        drivers[-1].faults.append('late: %s: %s' % (type(ex).__name__, ex))
    for r, d, n in zip(out, drivers, d0):
        r['late'] = sorted(d.done[n:], key=lambda c: c[0])
    return out


def evaluate(ctx, cases, res, im):
    from harness import c09
    saved = im.message.DBusMessage._nextSerial
    saved_reactor = im.client.reactor
    runs = []
    try:
        for c in cases:
            runs.append(run_impl(c09, im, c))
    finally:
        im.message.DBusMessage._nextSerial = saved
        im.client.reactor = saved_reactor
    lines = []
    for c, rs in zip(cases, runs):
        for (addr, events), r in zip(c[2], rs):
            lines.append('(9 0 %s %d %s ())' % (common.dump([x[0] for x in addr]), r['s0'], common.dump(events)))
    outs = common.run_model(lines)
    dist = res.extra.setdefault('repeated_connect', {'cases': 0, 'rounds': 0, 'rounds_same_address_as_an_earlier_one': 0,
                                                     'spec_outcome': {'pending': 0, 'ready': 0, 'failed': 0},
                                                     'attempts': 0})
    k = 0
    for n, (c, rs) in enumerate(zip(cases, runs)):
        res.count(c, nontrivial=len(c[2]) >= 2 and any(e[0] == 1 for _, evs in c[2] for e in evs))
        dist['cases'] += 1
        for j, ((addr, events), r) in enumerate(zip(c[2], rs)):
            o = outs[k]
            k += 1
            if o == [-1]:
                raise RuntimeError('model rejected input %r' % (c,))
            msteps_raw, spec, final_phase, minit, mlate = o
            drv = r['drv']
            dist['rounds'] += 1
            dist['rounds_same_address_as_an_earlier_one'] += any(a == addr for a, _ in c[2][:j])
            dist['spec_outcome'][{(): 'pending', (0,): 'ready', (1,): 'failed'}[tuple(spec)]] += 1
            dist['attempts'] += len(drv.attempts)
            where = 'connect() number %d of the process (address list %r)' % (j + 1, [list(a) for a in addr])
            if r['init'] is None:
                res.violate(c, '%s raised instead of returning a Deferred: %s' % (where, drv.connect_raised),
                            'connect-raised')
                continue
            # ---- correspondence: the round alone, on the model
            msteps = [c09.canon_model_step(ms)[0] for ms in msteps_raw]
            isteps = r['steps']
            if not (r['init'] == minit and len(isteps) == len(msteps)
                    and all(c09.same_step(x, y) for x, y in zip(isteps, msteps)) and not drv.faults
                    and c08.same_completions(r['late'], sorted(mlate, key=lambda x: x[0]))):
                res.disagree(c, [j, r['init'], isteps, r['late'], drv.faults], [j, minit, msteps, mlate])
            # ---- oracle
            if drv.faults:
                res.violate(c, '%s: an exception escaped the library: %r' % (where, drv.faults), 'exception-escaped')
            fired_all = list(drv.fired)
            if fired_all != list(spec):
                if not fired_all:
                    why, sig = 'its Deferred never fired; the history demands %s' % (
                        'the connection' if spec == [0] else 'a failure'), 'connect-deferred-never-fired'
                elif len(fired_all) > 1:
                    why, sig = 'its Deferred fired more than once', 'connect-deferred-fired-twice'
                elif not spec:
                    why, sig = 'its Deferred fired (%s) before connecting concluded' % (
                        'failure' if fired_all == [1] else 'connection'), 'connect-deferred-early'
                else:
                    why, sig = 'its Deferred fired with %s where the history demands %s' % (fired_all, list(spec)), \
                        'connect-deferred-wrong-result'
                res.violate(c, '%s: %s; attempts made: %r' % (where, why, drv.attempts), sig)
            listed = [list(c09.ADDR_TEXT[(a[0], a[1])][1]) for a in addr if c09.ADDR_TEXT[(a[0], a[1])][1] is not None]
            if drv.attempts != listed[:len(drv.attempts)]:
                res.violate(c, '%s tried %r; its address list, in listed order, is %r'
                            % (where, drv.attempts, listed), 'endpoint-order')
        if n % 97 == 0:
            res.sample(c)


# --------------------------------------------------------------------------
def gen_round(g, rng, addr, reach, serial, shape):
    """-> events of one connect() on addr whose usable entries are reachable as `reach` says, next serial"""
    c09_ret = lambda s, m: [4, [1, s, m]]
    usable = [a for a in addr if a[0] != 3]
    evs = []
    up = False
    for a, r in zip(usable, reach):
        evs.append([1] if r else [0])
        if r:
            up = True
            break
    if not up:
        return evs, serial
    if shape == 'ready-lost' or shape == 'ready-work-lost' or shape == 'ready':
        evs += [[2], c09_ret(serial, [['s'], [':1.%d' % rng.randrange(1, 99)]])]
        serial += 1
        if shape == 'ready-work-lost':
            evs += [[6, [], 11]]
            if rng.random() < 0.7:
                evs.append([4, [0, 0, [rng.choice([2, 5, 30])] if rng.random() < 0.5 else [], []]])
                serial += 1
        if shape != 'ready':
            evs.append([4, [4, rng.randrange(1, 4)]])
    elif shape == 'refused':
        evs += [[3], [4, [4, 2]]]
    elif shape == 'hello-error':
        evs += [[2], [4, [2, serial, 'org.freedesktop.DBus.Error.LimitsExceeded', [[], []]]]]
        serial += 1
        if rng.random() < 0.5:
            evs.append([4, [4, 1]])
    elif shape == 'lost-in-auth':
        evs.append([4, [4, 3]])
    elif shape == 'lost-before-hello':
        evs += [[2], [4, [4, 1]]]
        serial += 1
    return evs, serial


SHAPES = ['ready-lost', 'ready-work-lost', 'ready', 'refused', 'hello-error', 'lost-in-auth', 'lost-before-hello']


def gen_cases(ctx, g):
    import itertools
    rng = ctx.rng
    # every reachability of the same list of 1-3 usable entries in two consecutive connect() calls
    for n in (1, 2, 3):
        for reach1 in itertools.product((0, 1), repeat=n):
            for reach2 in itertools.product((0, 1), repeat=n):
                for shape in ('ready-lost', rng.choice(SHAPES)):
                    addr = [g.addr_entry(rng.choice([0, 1, 2])) for _ in range(n)]
                    if rng.random() < 0.3:
                        addr.insert(rng.randrange(0, n + 1), g.addr_entry(3))
                    s0 = rng.choice([1, 5, 40, 1000])
                    e1, ser = gen_round(g, rng, addr, reach1, s0, shape)
                    e2, ser = gen_round(g, rng, addr, reach2, ser, rng.choice(SHAPES))
                    yield ['re', s0, [[addr, e1], [addr, e2]]]
    # 2-4 connect() calls over one or two address lists
    for _ in range(ctx.n(200, 4000)):
        lists = []
        for _ in range(rng.choice([1, 1, 2])):
            lists.append([g.addr_entry(rng.choice([0, 0, 1, 2, 3])) for _ in range(rng.randrange(0, 4))])
        s0 = rng.choice([1, 3, 50, 65535])
        ser = s0
        rounds = []
        for _ in range(rng.randrange(2, 5)):
            addr = rng.choice(lists)
            nus = len([a for a in addr if a[0] != 3])
            reach = [int(rng.random() < 0.5) for _ in range(nus)]
            evs, ser2 = gen_round(g, rng, addr, reach, ser, rng.choice(SHAPES))
            if evs and rng.random() < 0.12 and not any(e[0] == 2 for e in evs):
                # the program does not wait: this connect() is still under way when the next one is made
                evs = evs[:rng.randrange(0, len(evs))]
                ser2 = ser
            ser = ser2
            rounds.append([addr, evs])
        yield ['re', s0, rounds]
