"""In-process network for C11: the REAL txdbus classes wired together without sockets.

    one bus.Bus(), one bus.BusProtocol per client (server side of a link), one client.DBusClientConnection per
    client (client side), linked by fake transports whose write() appends to a per-direction byte queue.

A SCHEDULER owned by the caller decides which queue delivers next and how many bytes of it (`deliver`): that is the
only way bytes move, so every interleaving of the links and every read partition can be produced.  Authentication is
bypassed the way harness/c13.py, c14.py (server: setAuthenticationSucceeded) and c08.py, c09.py (client: the line
'OK <guid>') do it; txdbus.client.reactor is a task.Clock owned by the network."""
import struct


class QTransport:
    """a transport whose writes go to a byte queue; `sink` is a bytearray shared with the network"""
    disconnecting = False

    def __init__(self, sink):
        self.sink = sink
        self.lost = False

    def write(self, data):
        self.sink += data

    def writeSequence(self, seq):
        self.sink += b''.join(seq)

    def loseConnection(self):
        self.disconnecting = True
        self.lost = True


class _Factory:
    def __init__(self, b):
        self.bus = b


def frame_len(buf, off=0):
    """total length of the message starting at buf[off:], None if fewer than 16 bytes are there"""
    if len(buf) - off < 16:
        return None
    fmt = '<' if buf[off:off + 1] == b'l' else '>'
    blen, = struct.unpack_from(fmt + 'I', buf, off + 4)
    hlen, = struct.unpack_from(fmt + 'I', buf, off + 12)
    return 16 + hlen + (-hlen % 8) + blen


class Net:
    """k clients attached to one bus.  Links: up[i] client i -> bus, down[i] bus -> client i (i = 1..k)."""

    def __init__(self, k, first_serial=1):
        from twisted.internet import task
        import txdbus.client
        import txdbus.protocol
        from txdbus import bus, message, interface
        txdbus.protocol._is_linux = False
        self.clock = task.Clock()
        txdbus.client.reactor = self.clock
        message.DBusMessage._nextSerial = first_serial
        self.message = message
        self.interface = interface
        self.bus = bus.Bus()
        self.fac = _Factory(self.bus)
        self.k = k
        self.up = {}
        self.down = {}
        self.server = {}
        self.client = {}
        self.off = {}
        self.escaped = []           # exceptions that escaped a dataReceived: (side, i, type name)
        for i in range(1, k + 1):
            self.up[i] = bytearray()
            self.down[i] = bytearray()
        for i in range(1, k + 1):
            sp = bus.BusProtocol()
            sp.factory = self.fac
            sp.makeConnection(QTransport(self.down[i]))
            sp.setAuthenticationSucceeded()
            self.server[i] = sp
            f = txdbus.client.DBusClientFactory()
            cp = f.buildProtocol(None)
            cp.makeConnection(QTransport(self.up[i]))
            # what the client wrote so far is the authentication dialogue's first lines: not for the bus's
            # binary parser (the server side is already authenticated)
            del self.up[i][:]
            cp.dataReceived(b'OK 1234abcd\r\n')
            assert cp._authenticated, 'fake handshake failed'
            # drop 'BEGIN\r\n' (and NEGOTIATE_UNIX_FD never appears: _is_linux is False); keep the Hello call
            j = self.up[i].find(b'BEGIN\r\n')
            assert j >= 0
            del self.up[i][:j + 7]
            self.client[i] = cp
            # Hello round trip, in order, so that client i is connection number i (':1.i')
            self.flush()
            assert cp.busName == ':1.%d' % i, cp.busName

    # ---- moving bytes ---------------------------------------------------------
    # A queue holds the bytes written and not yet completely handed over; self.off[link] bytes of its FIRST message
    # have been handed to the receiver already (they spilled into an earlier read), the message itself stays in the
    # queue until its last byte is delivered.
    def links(self):
        """the non-empty queues: ('u', i) / ('d', i)"""
        return [('u', i) for i in range(1, self.k + 1) if self.up[i]] + \
               [('d', i) for i in range(1, self.k + 1) if self.down[i]]

    def queue(self, link):
        return (self.up if link[0] == 'u' else self.down)[link[1]]

    def _hand(self, link, data):
        p = (self.server if link[0] == 'u' else self.client)[link[1]]
        try:
            p.dataReceived(data)
        except Exception as ex:        # Twisted would drop the connection
            self.escaped.append((link[0], link[1], type(ex).__name__))

    def deliver(self, link):
        """hand everything that is waiting on a link to the receiver in ONE read"""
        q = self.queue(link)
        off = self.off.get(link, 0)
        data = bytes(q[off:])
        del q[:]
        self.off[link] = 0
        self._hand(link, data)

    def deliver_message(self, link, cuts=(), spill=0):
        """complete the first message of the queue: what is left of it arrives in several reads, cut at the offsets
        `cuts` (relative to the start of the message); the last read also carries the first `spill` bytes of the
        message behind it (never all of them)"""
        q = self.queue(link)
        n = frame_len(q)
        assert n is not None and n <= len(q), 'no complete message on %r' % (link,)
        pos = self.off.get(link, 0)
        for c in sorted(set(x for x in cuts if pos < x < n)):
            self._hand(link, bytes(q[pos:c]))
            pos = c
        extra = 0
        if spill > 0:
            n2 = frame_len(q, n)
            if n2 is not None and n + n2 <= len(q):
                extra = min(spill, n2 - 1)
        data = bytes(q[pos:n + extra])
        del q[:n]
        self.off[link] = extra
        self._hand(link, data)

    def messages(self, link):
        """number of complete messages waiting on a link"""
        q = self.queue(link)
        off = 0
        cnt = 0
        while True:
            n = frame_len(q, off)
            if n is None or off + n > len(q):
                return cnt
            off += n
            cnt += 1

    def flush(self, limit=10000):
        """deliver everything until all queues are empty (fixed order)"""
        for _ in range(limit):
            ls = self.links()
            if not ls:
                return
            self.deliver(ls[0])
        raise RuntimeError('network does not quiesce')
