"""C13 correspondence: the name table of txdbus's built-in bus (txdbus.bus.Bus: clientConnected,
clientDisconnected, dbus_RequestName, dbus_ReleaseName, dbus_GetNameOwner, dbus_ListQueuedOwners)
vs Model/BusNames.v (model, and the pre-repair model) and Spec/NameSpec.v (oracle).

A case is a list of operations (encoding in coq/Model/OpsC13.v):
    [0]                   a new connection is made and says Hello; it is connection number k (k-th [0])
    [1, c, name, flags]   connection c calls RequestName(name, flags)
    [2, c, name]          ReleaseName         [3, c, name]  GetNameOwner       [4, c, name]  ListQueuedOwners
    [5, c]                connection c's transport is lost
    [6]                   a new connection is made that does NOT say Hello (it says nothing yet); it, too, is counted:
                          c is always the position of the connection among the [0] / [6] operations of the case
    [7, c]                connection c says Hello now (late, when it was made by [6])
The bus numbers a connection (unique name ':1.k') when its FIRST message arrives, whatever that message is - this is
what the model's Connect is ("a new connection sends its first message").  For the model a case is therefore
re-written (translate): a [6] connection gets its Connect immediately before its first call, calls carry the bus
number of the connection they arrive on, and a step at which the bus has nothing to do ([6] itself, the loss of a
connection that never sent anything, a Hello of a connection already numbered) is the model's "nothing happens".
An operation of kind 1-4 may carry one more, last element [sender]: the text the CLIENT itself wrote into the
SENDER header field (7) of that call (its own unique name, the unique name of another / a lost / a never
seen connection, a well-known name, the bus's name).  An ordinary client leaves the field out; the caller of
a request is the connection the message arrives on whatever that field says, so the reference model is given
the operation without it.
Connection 1 is a passive observer: right after its Hello the harness lets it call AddMatch for
NameOwnerChanged, so that what the bus hands to its broadcast router becomes visible from outside.

The real Bus is driven from outside only: one bus.Bus(), one BusProtocol per connection on a fake
transport, authentication bypassed (setAuthenticationSucceeded()), every call built as a
MethodCallMessage and fed as raw bytes through dataReceived (framing, parseMessage, sender
overwrite, re-marshal, object dispatch, reply routing are all on the path).  After each operation
every transport is drained and the bytes written are parsed back into messages: the method return /
error reply carrying the call's serial is the reply, everything else must be a NameAcquired /
NameLost signal on the transport of the connection it is for, or a NameOwnerChanged at the observer.
Observation per operation: [reply, sorted signals]."""
import itertools
import struct

from harness import common

ASSUMPTIONS = [
    'connections are authenticated (setAuthenticationSucceeded is called directly; authentication is C06) and '
    'each says Hello first; Twisted delivers no data after connectionLost, so no operation is issued by a '
    'connection that has been lost (the model answers such an operation with "nothing happens")',
    'connection 1 is a passive observer holding the match rule type=signal, member=NameOwnerChanged; that the '
    'router delivers a broadcast to exactly the holders of matching rules is C12/C14, here it only makes the '
    'emission visible',
    'within one operation the order in which reply and signals are written is not compared (signals are sorted); '
    'across operations everything is compared step by step',
    'NameOwnerChanged is compared between implementation and model (correspondence) but is not part of the oracle: '
    'the property speaks of the new owner being told (NameAcquired); txdbus does not emit NameOwnerChanged on '
    'release / disconnect, the DBus specification does (recorded as an observation, not a violation of C13)',
    'error replies are compared by DBus error name class only (InvalidArgs / NameHasNoOwner / a Python exception '
    'leaking as org.txdbus.PythonException.*), never by message text; sender / destination header fields of the '
    'replies and signals are not compared (C14)',
    'calls whose SENDER header field was filled in by the client (forged-sender family): the property speaks of "the '
    'caller" / "the requester" / "a client that released a name", i.e. the connection the call arrives on; what a '
    'client writes into its own message headers is input like the name and the flags, so the reference table is '
    'given the operation as issued by the connection it arrived on and the claimed sender is withheld from it.  '
    'Only syntactically valid bus names are claimed',
    'connections that skip Hello ([6]): txdbus\'s bus serves a call addressed to org.freedesktop.DBus on a connection '
    'that has not said Hello, and enters the connection into its client table at its first message.  The property '
    'speaks of "clients" / "the requester" / "the owner ... disconnects" without making Hello a condition, so such a '
    'connection is a client of the reference table from its first message on (Connect of the model / specification '
    'placed there), and everything the property says about owners, waiting clients, releases and disconnects is '
    'demanded of it as of any other.  The reply to a Hello that is not the first message of its connection is not '
    'compared (the property does not mention it); that it emits no name signal is',
    'exhaustive tier: histories are shared by the name-table state they reach (one representative history per '
    'state, up to renaming of clients and names, for every state reachable in fewer steps than the bound; every '
    'operation of every client is tried from every such state), which covers every history of that length up '
    'to the state equivalence of the reference table and that symmetry',
]

GOOD = ['a.b', 'c.d']
ODD_NAMES = ['', ':1.2', ':1.9', 'ab', 'a..b', '.a.b', 'a.b.', 'a.1b', 'org.freedesktop.DBus', 'a-b.c_d', '1a.b',
             'a.b:c', 'x' * 127 + '.' + 'y' * 127, 'x' * 128 + '.' + 'y' * 127, 'a.bé', 'a.中', ':a.b', 'a b.c']
ERR = {'org.freedesktop.DBus.Error.InvalidArgs': 1, 'org.freedesktop.DBus.Error.NameHasNoOwner': 2}
MEMBER = {1: 'RequestName', 2: 'ReleaseName', 3: 'GetNameOwner', 4: 'ListQueuedOwners'}
OPNAME = {0: 'Connect', 1: 'RequestName', 2: 'ReleaseName', 3: 'GetNameOwner', 4: 'ListQueuedOwners',
          5: 'Disconnect', 6: 'ConnectWithoutHello', 7: 'Hello'}
NOTHING = [5, 0]     # for the model: the loss of a connection the bus never numbered - nothing happens
RULE = "type='signal',interface='org.freedesktop.DBus',member='NameOwnerChanged'"


def cs(s):
    """a Python str as the model prints it: bytes when every code point < 256, else the code points"""
    if all(ord(ch) < 256 for ch in s):
        return s.encode('latin-1')
    return [ord(ch) for ch in s]


# --------------------------------------------------------------------------
# the implementation side
class FakeTransport:
    disconnecting = False

    def __init__(self):
        self.out = bytearray()

    def write(self, data):
        self.out += data

    def writeSequence(self, seq):
        self.out += b''.join(seq)

    def loseConnection(self):
        self.disconnecting = True


class _Factory:
    def __init__(self, b):
        self.bus = b


class Impl:
    def __init__(self):
        from twisted.internet import error as terror
        from twisted.python import failure
        import txdbus.protocol
        from txdbus import bus, message
        txdbus.protocol._is_linux = False
        self.bus, self.message = bus, message
        self.lost = failure.Failure(terror.ConnectionDone())
        self.cache = {}

    def raw(self, member, sig, body, serial, sender=None):
        key = (member, repr(body), serial, sender)
        r = self.cache.get(key)
        if r is None:
            m = self.message.MethodCallMessage('/org/freedesktop/DBus', member, interface='org.freedesktop.DBus',
                                               destination='org.freedesktop.DBus', signature=sig, body=body)
            m.serial = serial
            if sender is not None:
                m.sender = sender         # header field 7, written by the client itself
            m._marshal(False)
            r = m.rawMessage
            if len(self.cache) < 100000:
                self.cache[key] = r
        return r

    def split(self, buf):
        msgs = []
        off = 0
        while off < len(buf):
            fmt = '<' if buf[off:off + 1] == b'l' else '>'
            blen, = struct.unpack_from(fmt + 'I', buf, off + 4)
            hlen, = struct.unpack_from(fmt + 'I', buf, off + 12)
            total = 16 + hlen + (-hlen % 8) + blen
            msgs.append(self.message.parseMessage(bytes(buf[off:off + total]), []))
            off += total
        return msgs


def claimed(o):
    """the SENDER header field the client wrote into this call itself, or None (the ordinary case)"""
    if o[0] in (1, 2, 3, 4) and isinstance(o[-1], (list, tuple)):
        return o[-1][0]
    return None


def as_issued(o):
    """the operation as the reference model sees it: issued by the connection it arrives on"""
    return o[:-1] if claimed(o) is not None else o


class Translation:
    """a case re-written for the model.  Computed from the case alone (never from what the implementation did):
    mops      the model's operations, connections by bus number
    where[i]  indices into mops whose outputs together are what step i must show (the reply of the last one,
              the signals of all of them)
    number    position of a connection in the case -> its bus number (absent: never numbered)
    since     position -> the step at which it was numbered
    live[i]   bus numbers of the connections that are connected and numbered just after step i
    silent[i] step i is a Hello that is not the first message of its connection (its reply is not compared)"""

    def __init__(self, case):
        self.mops, self.where, self.number, self.since, self.live, self.silent = [], [], {}, {}, [], []
        made, nxt = 0, 1
        unheard, gone, live = set(), set(), set()

        def emit(mo):
            self.mops.append(mo)
            return len(self.mops) - 1

        def first_message(c, i):
            nonlocal nxt
            unheard.discard(c)
            self.number[c], self.since[c] = nxt, i
            live.add(nxt)
            nxt += 1
            return emit([0])

        for i, o in enumerate(case):
            o = as_issued(o)
            kind = o[0]
            quiet = False
            if kind in (0, 6):
                made += 1
                if kind == 0:
                    idx = [first_message(made, i)]
                else:
                    unheard.add(made)
                    idx = [emit(NOTHING)]
            else:
                c = o[1]
                idx = []
                if c in unheard and kind != 5:
                    idx.append(first_message(c, i))
                if kind == 7:
                    if not idx:
                        quiet = True
                        idx = [emit(NOTHING)]
                elif c not in self.number:
                    unheard.discard(c)
                    idx.append(emit(NOTHING))
                else:
                    idx.append(emit([kind, self.number[c]] + list(o[2:])))
                if kind == 5:
                    gone.add(c)
                    live.discard(self.number.get(c))
            self.where.append(idx)
            self.live.append(set(live))
            self.silent.append(quiet)

    def line(self):
        return '(13 %s)' % common.dump(self.mops)

    def expected(self, outs):
        """the model's outputs, one per step of the case"""
        exp = []
        for idx in self.where:
            exp.append([outs[idx[-1]][0], sorted([s for j in idx for s in outs[j][1]], key=repr)])
        return exp

    def who(self, c, i):
        """how the connection at position c is called at step i: its bus number, or -c while it has none"""
        return self.number[c] if c in self.number and self.since[c] <= i else -c


def run_impl(im, case):
    """-> list of observations [reply, signals], one per operation"""
    b = im.bus.Bus()
    fac = _Factory(b)
    conns = []           # index k-1 -> BusProtocol of the k-th connection made
    live = set()
    serial = [100]
    obs = []
    tr = Translation(case)
    step = [0]

    def send(p, member, sig, body, i, sender=None):
        serial[0] += 1
        raw = im.raw(member, sig, body, serial[0], sender)
        if (i + len(case)) % 3 == 0:       # every third message arrives in two reads (cut derived from the case)
            k = 1 + (7 * i + 13 * len(case)) % (len(raw) - 1)
            p.dataReceived(raw[:k])
            p.dataReceived(raw[k:])
        else:
            p.dataReceived(raw)
        return serial[0]

    def drain(kind, caller, ser):
        reply = [0]
        sigs = []
        for k, q in enumerate(conns, 1):
            if not q.transport.out:
                continue
            data, q.transport.out = q.transport.out, bytearray()
            for m in im.split(data):
                mt = m._messageType
                if mt == 2 and k == caller and m.reply_serial == ser and reply == [0]:
                    body = m.body or []
                    if kind == 0 and len(body) == 1:
                        reply = [1, cs(body[0])]
                    elif kind in (1, 2) and len(body) == 1:
                        reply = [2, body[0]]
                    elif kind == 3 and len(body) == 1:
                        reply = [4, cs(body[0])]
                    elif kind == 4 and len(body) == 1:
                        reply = [5, [cs(x) for x in body[0]]]
                    else:
                        reply = [-2, repr(body)]
                elif mt == 3 and k == caller and m.reply_serial == ser and reply == [0]:
                    en = m.error_name
                    reply = [3, ERR.get(en, 3 if en.startswith('org.txdbus.PythonException') else -3)]
                elif mt == 4 and m.member == 'NameAcquired' and len(m.body or []) == 1:
                    sigs.append([1, tr.who(k, step[0]), cs(m.body[0])])
                elif mt == 4 and m.member == 'NameLost' and len(m.body or []) == 1:
                    sigs.append([2, tr.who(k, step[0]), cs(m.body[0])])
                elif mt == 4 and m.member == 'NameOwnerChanged' and k == 1 and len(m.body or []) == 3:
                    sigs.append([3] + [cs(x) for x in m.body])
                else:
                    sigs.append([-4, tr.who(k, step[0]), mt, str(getattr(m, 'member', None))])
        return [reply, sorted(sigs, key=repr)]

    for i, o in enumerate(case):
        kind = o[0]
        step[0] = i
        try:
            if kind == 6:
                p = im.bus.BusProtocol()
                p.factory = fac
                p.makeConnection(FakeTransport())
                p.setAuthenticationSucceeded()
                conns.append(p)
                live.add(len(conns))
                obs.append(drain(6, len(conns), None))
                continue
            if kind == 0:
                p = im.bus.BusProtocol()
                p.factory = fac
                p.makeConnection(FakeTransport())
                p.setAuthenticationSucceeded()
                conns.append(p)
                live.add(len(conns))
                ser = send(p, 'Hello', None, None, i)
                ob = drain(0, len(conns), ser)
                if len(conns) == 1:
                    s2 = send(p, 'AddMatch', 's', [RULE], i)
                    extra = drain(-1, 1, s2)
                    if extra != [[-2, '[]'], []]:
                        ob = [[-5, repr(extra)], []]
                obs.append(ob)
                continue
            c = o[1]
            if c not in live:
                obs.append([[0], []])
                continue
            p = conns[c - 1]
            if kind == 5:
                live.discard(c)
                p.connectionLost(im.lost)
                obs.append(drain(5, c, None))
            elif kind == 7:
                ser = send(p, 'Hello', None, None, i)
                ob = drain(0, c, ser)
                if tr.silent[i]:
                    ob[0] = [0]          # a Hello that is not the first message: only its signals (none) are compared
                obs.append(ob)
            elif kind == 1:
                ser = send(p, 'RequestName', 'su', [o[2], o[3]], i, claimed(o))
                obs.append(drain(1, c, ser))
            else:
                ser = send(p, MEMBER[kind], 's', [o[2]], i, claimed(o))
                obs.append(drain(kind, c, ser))
        except Exception as ex:     # an exception escaping the library
            drain(kind, 0, None)
            obs.append([[-1, type(ex).__name__], []])
    return obs


def _impl_chunk(args):
    """worker: run a slice of the cases on the implementation (own process, own import of the tree under test)"""
    repo, chunk = args
    common.setup_repo_path(repo)
    im = Impl()
    return [run_impl(im, c) for c in chunk]


def run_impl_all(ctx, cases):
    """implementation observations for all cases; large batches are spread over worker processes (the cases are
    independent: every case builds its own Bus)"""
    if len(cases) < 2000:
        im = Impl()
        return [run_impl(im, c) for c in cases]
    import multiprocessing
    nproc = 6
    size = (len(cases) + nproc * 4 - 1) // (nproc * 4)
    chunks = [cases[i:i + size] for i in range(0, len(cases), size)]
    with multiprocessing.get_context('fork').Pool(nproc) as pool:
        parts = pool.map(_impl_chunk, [(ctx.repo, ch) for ch in chunks], chunksize=1)
    return [o for part in parts for o in part]


# --------------------------------------------------------------------------
def canon_model(outs):
    return [[o[0], sorted(o[1], key=repr)] for o in outs]


def no_noc(ob):
    return [ob[0], [s for s in ob[1] if s[0] != 3]]


def live_before(case, i):
    """bus numbers of the connections that are connected (and numbered) just after step i"""
    return Translation(case).live[i]


def conn_of(u):
    """':1.k' (as bytes) -> k"""
    try:
        return int(bytes(u)[3:])
    except Exception:
        return -1


def why_step(case, i, io, so):
    """-> (why, signature): a short stable classification of how the bus departs from the reference table"""
    o = case[i]
    kind = OPNAME[o[0]]
    live = live_before(case, i)
    if io[0] != so[0]:
        what = 'answer'
        if o[0] in (1, 2) and io[0][0] == 2 and so[0][0] == 2:
            what = 'reply-%d-spec-%d' % (io[0][1], so[0][1])
        elif o[0] == 3 and io[0][0] == 4 and conn_of(io[0][1]) not in live:
            what = 'dead-owner'
        elif o[0] == 4 and io[0][0] == 5:
            members = [conn_of(u) for u in io[0][1]]
            if len(set(members)) != len(members):
                what = 'duplicate-entry'
            elif any(m not in live for m in members):
                what = 'dead-entry'
        return ('%s (step %d, %r): answered %r, the reference table says %r' % (kind, i, o, io[0], so[0]),
                '%s:%s' % (kind, what))
    what = 'signals'
    me = Translation(case).number.get(o[1]) if o[0] == 5 else None
    if any(s[0] in (1, 2) and s[1] not in live and not (o[0] == 5 and s[1] == me) for s in io[1]):
        what = 'signal-to-dead-client'
    elif any(s[0] < 0 for s in io[1]):
        what = 'unexpected-message'
    return ('%s (step %d, %r): signals %r, the reference table says %r' % (kind, i, o, io[1], so[1]),
            '%s:%s' % (kind, what))


class PerSignature:
    """at most `limit` recorded violations per signature, so that one frequent defect does not crowd out the others"""

    def __init__(self, res, limit=20):
        self.res, self.limit, self.n = res, limit, {}

    def violate(self, case, why, sig):
        self.n[sig] = self.n.get(sig, 0) + 1
        tot = self.res.extra.setdefault('violations_by_signature', {})
        tot[sig] = tot.get(sig, 0) + 1
        if self.n[sig] <= self.limit:
            self.res.violate(case, why, sig)


def client_flag_cases():
    return ([['client-flags', a, r, d] for a in (0, 1) for r in (0, 1) for d in (0, 1)] +
            [['client-flags', 'result', a, r, d, e, code] for a in (0, 1) for r in (0, 1) for d in (0, 1) for e in (0, 1)
             for code in (1, 2, 3, 4)])


def evaluate_client_result(c, res):
    """what requestBusName makes of the bus's reply code: with errbackUnlessAcquired (the default) the Deferred succeeds exactly
    when the caller now OWNS the name (codes 1 owner, 4 already owner) and fails with FailedToAcquireName carrying the code
    otherwise (2 queued, 3 refused); without it the code is handed through"""
    from twisted.internet import defer
    from txdbus import client as _cl
    from txdbus import error as _er
    _, _, a, r, d, e, code = c

    class Stub:
        def callRemote(self, *aa, **kw):
            self.d = defer.Deferred()
            return self.d
    st = Stub()
    got = []
    try:
        dd = _cl.DBusClientConnection.requestBusName(st, 'a.b', allowReplacement=bool(a), replaceExisting=bool(r), doNotQueue=bool(d),
                                                     errbackUnlessAcquired=bool(e))
        dd.addCallbacks(lambda v: got.append(['ok', v]),
                        lambda f: got.append(['err', f.check(_er.FailedToAcquireName) is not None, getattr(f.value, 'returnCode', None)]))
        st.d.callback(code)
    except Exception as ex:
        got = [['exc', type(ex).__name__]]
    res.count(c, nontrivial=True)
    want = [['ok', code]] if (not e or code in (1, 4)) else [['err', True, code]]
    if got != want:
        res.violate(c, 'requestBusName(doNotQueue=%s, errbackUnlessAcquired=%s) answered with reply code %d completes as %r; the reply '
                    'code means %r' % (bool(d), bool(e), code, got, want), 'client:reply-code-mapping')


def evaluate_client_flags(cases, res):
    """client side of the property: the flag word requestBusName puts on the wire states what the caller asked for
    (ALLOW_REPLACEMENT 1, REPLACE_EXISTING 2, DO_NOT_QUEUE 4) - the bus decides ownership from exactly these bits"""
    from twisted.internet import defer
    from txdbus import client as _cl

    class Stub:
        def callRemote(self, *a, **kw):
            self.a, self.kw = a, kw
            return defer.Deferred()
    for c in cases:
        if c[1] == 'result':
            evaluate_client_result(c, res)
            continue
        _, a, r, d = c
        st = Stub()
        try:
            _cl.DBusClientConnection.requestBusName(st, 'a.b', allowReplacement=bool(a), replaceExisting=bool(r), doNotQueue=bool(d))
            word = int(st.kw['body'][1])
        except Exception as e:
            word = 'exc:' + type(e).__name__
        res.count(c, nontrivial=True)
        want = (1 if a else 0) | (2 if r else 0) | (4 if d else 0)
        if word != want:
            res.violate(c, 'requestBusName(allowReplacement=%s, replaceExisting=%s, doNotQueue=%s) sends the flag word %r, the request means %d'
                        % (bool(a), bool(r), bool(d), word, want), 'client:flag-word')


def evaluate(ctx, cases, res):
    flags = [c for c in cases if c and c[0] == 'client-flags']
    evaluate_client_flags(flags, res)
    cases = [c for c in cases if not (c and c[0] == 'client-flags')]
    if not cases:
        return
    cases = [[list(o) for o in c] for c in cases]
    trs = [Translation(c) for c in cases]
    outs = common.run_model([t.line() for t in trs])
    impl_obs = run_impl_all(ctx, cases)
    vres = PerSignature(res)
    dist = res.extra.setdefault('input_distribution', {'ops': {}, 'replies': {}, 'signals': 0, 'length': {}})
    legacy = res.extra.setdefault('legacy_variants_distinguished', {'pre-repair model differs (D21/D22/D23/D28/D31)': 0})
    for c, o, io, tr in zip(cases, outs, impl_obs, trs):
        if o == [-1]:
            raise RuntimeError('model rejected input %r' % (c,))
        mo, lo, so = tr.expected(o[0]), tr.expected(o[1]), tr.expected(o[2])
        if any(x[0] == 6 for x in c):
            dist['histories_with_connections_skipping_hello'] = dist.get('histories_with_connections_skipping_hello', 0) + 1
            if any(x[0] == 5 and x[1] not in tr.number for x in c):
                dist['lost_before_any_message'] = dist.get('lost_before_any_message', 0) + 1
        res.traces += 1
        nmut = sum(1 for x in c if x[0] in (1, 2, 5))
        res.count(c, nontrivial=nmut >= 2)
        ln = str(len(c))
        dist['length'][ln] = dist['length'].get(ln, 0) + 1
        for x, ob in zip(c, io):
            k = OPNAME[x[0]]
            dist['ops'][k] = dist['ops'].get(k, 0) + 1
            if claimed(x) is not None:
                dist['client_written_sender'] = dist.get('client_written_sender', 0) + 1
            if x[0] in (1, 2):
                rk = '%s:%r' % (k, ob[0][1:])
                dist['replies'][rk] = dist['replies'].get(rk, 0) + 1
            dist['signals'] += len(ob[1])
        if lo != mo:
            legacy['pre-repair model differs (D21/D22/D23/D28/D31)'] += 1
        if io != mo and io == lo:
            res.extra['implementation_behaves_as_pre_repair_model'] = \
                res.extra.get('implementation_behaves_as_pre_repair_model', 0) + 1
        # correspondence: model == implementation, step by step
        if io != mo:
            i = next((j for j, (a, b2) in enumerate(zip(io, mo)) if a != b2), min(len(io), len(mo)))
            res.disagree(c, ['step', i, io[i:i + 1]], ['step', i, mo[i:i + 1]])
        # oracle: implementation vs the reference table, first diverging step
        for i, (a, s) in enumerate(zip(io, so)):
            if a[0] and a[0][0] == -1:
                vres.violate(c, 'an exception escaped the bus at step %d (%r): %s' % (i, c[i], a[0][1]),
                             'exception-escaped')
                break
            if no_noc(a) != no_noc(s):
                why, sig = why_step(c, i, no_noc(a), no_noc(s))
                if any(claimed(x) is not None for x in c[:i + 1]):
                    why += ('; calls of this history carry a SENDER header field written by the client itself (%s): '
                            'the caller is the connection the call arrived on'
                            % ', '.join('step %d: %r' % (j, claimed(x)) for j, x in enumerate(c[:i + 1])
                                        if claimed(x) is not None))
                vres.violate(c, why, sig)
                break
    for c in cases[:1] + cases[len(cases) // 2: len(cases) // 2 + 2] + cases[-2:]:
        res.sample(c)


# --------------------------------------------------------------------------
# generators
def all_ops(nclients, names, first=2):
    ops = []
    for c in range(first, first + nclients):
        for n in names:
            for f in range(8):
                ops.append([1, c, n, f])
            ops.append([2, c, n])
            ops.append([3, c, n])
            ops.append([4, c, n])
        ops.append([5, c])
    return ops


def probes(names):
    return [[k, 1, n] for n in names for k in (3, 4)]


def spec_state(cases):
    """the reference table after each case (from the extracted specification): used only to share histories
    between cases, never for a verdict"""
    return [o[3] for o in common.run_model([Translation(c).line() for c in cases])]


def state_key(table, nclients, names):
    """canonical key of a reference table up to renaming of the scripted clients and of the names"""
    live = [c for c in table[0] if c != 1]
    qs = {bytes(p[0]).decode('latin-1'): [(e[0], e[1]) for e in p[1]] for p in table[1]}
    queues = [qs.get(n, []) for n in names]
    best = None
    for cp in itertools.permutations(range(2, 2 + nclients)):
        ren = dict(zip(range(2, 2 + nclients), cp))
        for npm in itertools.permutations(range(len(names))):
            k = (tuple(sorted(ren[c] for c in live)),
                 tuple(tuple((ren[c], a) for c, a in queues[j]) for j in npm))
            if best is None or k < best:
                best = k
    return best


def gen_exhaustive(ctx, depth, nclients, names, res, skip_hello=False):
    """every operation from every state reachable in < depth steps (one representative history per state).
    skip_hello: the scripted clients are made without Hello (the observer says Hello); a Hello is one more operation
    they may issue at any time, and the state of a history is the reference table together with how many connections
    the bus has not heard from yet"""
    ops = all_ops(nclients, names)
    prefix = [[0]] * (1 + nclients)
    if skip_hello:
        ops += [[7, c] for c in range(2, 2 + nclients)]
        prefix = [[0]] + [[6]] * nclients
    pr = probes(names)
    seen = {}
    frontier = [[]]
    cases = []
    nstates = []
    for d in range(depth):
        last = d == depth - 1
        level = []
        for h in frontier:
            dead = {o[1] for o in h if o[0] == 5}
            for o in ops:
                if o[1] in dead:
                    continue
                level.append(prefix + h + [o] + pr)
        cases.extend(level)
        if last:
            break
        cand = [c for c in level if c[-len(pr) - 1][0] in (1, 2, 5, 7)]
        outs = spec_state(cand)
        nxt = []
        for c, o in zip(cand, outs):
            k = state_key(o, nclients, names)
            if skip_hello:
                tr = Translation(c)
                gone = {x[1] for x in c if x[0] == 5}
                unheard = [x for x in range(2, 2 + nclients) if x not in tr.number]
                k = (k, len([x for x in unheard if x not in gone]), len([x for x in unheard if x in gone]))
            if k not in seen:
                seen[k] = True
                nxt.append(c[len(prefix):-len(pr)])
        nstates.append(len(nxt))
        frontier = nxt
    res.extra.setdefault('exhaustive_scopes', []).append(
        {'clients': nclients, 'names': len(names), 'depth': depth, 'ops_per_state': len(ops), 'skip_hello': skip_hello,
         'new_states_per_level': nstates, 'cases': len(cases)})
    return cases


def gen_random(ctx, n, length):
    rng = ctx.rng
    cases = []
    for _ in range(n):
        nconn = 1
        live = []
        h = [[0]]
        # in about a third of the histories some connections skip Hello: their first message is whatever call comes
        pquiet = rng.choice([0.0, 0.0, 0.35, 0.8])
        unheard = set()

        def connect():
            nonlocal nconn
            nconn += 1
            live.append(nconn)
            if rng.random() < pquiet:
                h.append([6])
                unheard.add(nconn)
            else:
                h.append([0])
        for _ in range(rng.randrange(2, 5)):
            connect()
        names = list(GOOD)
        if rng.random() < 0.3:
            names.append(rng.choice(ODD_NAMES))
        if rng.random() < 0.2:
            names.append('e.f')
        while len(h) < length:
            r = rng.random()
            if not live or r < 0.06:
                connect()
                continue
            c = rng.choice(live)
            if c in unheard and rng.random() < 0.1:
                h.append([7, c])          # a late Hello (it is the first message only if c has not called yet)
                unheard.discard(c)
                continue
            nm = rng.choice(names) if rng.random() < 0.95 else rng.choice(ODD_NAMES)
            if r < 0.55:
                f = rng.randrange(8) if rng.random() < 0.95 else rng.choice([8, 9, 14, 255, 2 ** 32 - 1, 2 ** 31 + 2])
                h.append([1, c, nm, f])
            elif r < 0.72:
                h.append([2, c, nm])
            elif r < 0.80:
                h.append([3, c, nm if rng.random() < 0.8 else ':1.%d' % rng.randrange(1, nconn + 2)])
            elif r < 0.88:
                h.append([4, c, nm])
            else:
                h.append([5, c])
                live.remove(c)
        # now and then a client fills in the SENDER field of its call itself (client-controlled input, like the name)
        k = 0
        for j, o in enumerate(h):
            if o[0] in (0, 6):
                k += 1
            elif o[0] in (1, 2, 3, 4) and rng.random() < 0.06:
                h[j] = o + [[sender_claims(rng, k, names)]]
        h += probes(names[:3])
        cases.append(h)
    return cases


def sender_claims(rng, nconn, names):
    """what a client may write into the SENDER field of its own call: a unique name handed out so far (its own,
    another client's, the observer's, one of a lost connection), one not handed out yet, a well-known name, the bus"""
    r = rng.random()
    if r < 0.75:
        return ':1.%d' % rng.randrange(1, nconn + 2)
    if r < 0.9:
        return rng.choice(names)
    return 'org.freedesktop.DBus'


def gen_forged(ctx):
    """calls whose SENDER header field was filled in by the client.  Clients 2, 3, 4 (1 is the observer); from each of a
    set of name-table situations of 'a.b', every call client 3 can make (8 flag words, release, the two lookups, on
    'a.b' and on the free name 'c.d') with every kind of claimed sender, followed by a second, ordinary round of
    requests / releases by everybody (whoever wrongly gained or lost a place shows there) and the observer's probes"""
    rng = ctx.rng
    P = [[0], [0], [0], [0]]
    n = 'a.b'
    bases = [
        [],                                                       # free
        [[1, 2, n, 0]],                                           # 2 owns, no replacement
        [[1, 2, n, 1]],                                           # 2 owns, allows replacement
        [[1, 3, n, 0]],                                           # 3 itself owns
        [[1, 3, n, 1], [1, 2, n, 0]],                             # 3 owns, 2 waits
        [[1, 2, n, 0], [1, 3, n, 0]],                             # 2 owns, 3 waits
        [[1, 2, n, 1], [1, 3, n, 0], [1, 4, n, 0]],               # 2 owns (replaceable), 3 and 4 wait
        [[1, 2, n, 0], [1, 4, n, 0], [1, 3, n, 0]],               # 2 owns, 4 and 3 wait
        [[1, 4, n, 0], [1, 2, n, 0], [5, 4]],                     # 2 inherited the name from the lost 4
        [[1, 2, n, 0], [1, 3, n, 0], [5, 2]],                     # 3 inherited the name from the lost 2
    ]
    claims = [':1.1', ':1.2', ':1.3', ':1.4', ':1.7', 'org.freedesktop.DBus', n]
    calls = [o for o in all_ops(1, GOOD, first=3) if o[0] != 5]
    after = [[2, 3, n], [1, 4, n, 0], [2, 2, n], [1, 3, n, 4], [2, 4, n]]
    cases = []
    for b in bases:
        for o in calls:
            for cl in claims:
                tail = [x for x in after if rng.random() < 0.5]
                cases.append(P + b + [o + [[cl]]] + tail + probes(GOOD))
    # every call of a history carries a claimed sender
    for _ in range(ctx.n(150, 3000)):
        h = []
        for _ in range(rng.randrange(3, 9)):
            c = rng.choice([2, 3, 4])
            k = rng.choice([1, 1, 1, 2, 2, 3, 4])
            nm = rng.choice(GOOD)
            o = [1, c, nm, rng.randrange(8)] if k == 1 else [k, c, nm]
            h.append(o + [[sender_claims(rng, 4, GOOD)]])
        cases.append(P + h + probes(GOOD))
    return cases


def gen_directed():
    """the witnesses of D21, D22, D23, D28, D31 and the odd names, each followed by the probes"""
    P = [[0], [0], [0], [0]]
    n = 'a.b'
    hs = [
        [[1, 2, n, 0], [1, 3, n, 0]],                                      # D21
        [[1, 2, n, 0], [1, 3, n, 2], [2, 3, n]],                            # D22
        [[1, 2, n, 0], [1, 3, n, 2], [5, 3], [2, 2, n]],                    # D23
        [[1, 2, n, 0], [1, 3, n, 2], [1, 3, n, 2], [2, 2, n], [2, 3, n]],   # D28
        [[1, 2, n, 0], [1, 3, n, 2], [1, 3, n, 6], [2, 2, n]],              # D31
        [[1, 2, n, 1], [1, 3, n, 0], [1, 4, n, 0], [1, 4, n, 3], [2, 4, n]],  # a waiting client replaces the owner
        [[1, 2, n, 1], [1, 3, n, 2], [2, 3, n], [1, 2, n, 0], [1, 3, n, 2]],
        [[1, 2, n, 0], [1, 3, n, 1], [5, 2], [1, 4, n, 2], [3, 4, n]],
        [[2, 2, n], [2, 2, 'never.requested'], [2, 2, ''], [2, 2, ':1.2']],
    ]
    hs += [[[1, 2, x, 0], [3, 3, x], [4, 3, x], [2, 2, x]] for x in ODD_NAMES]
    hs += [[[3, 2, ':1.%d' % k] for k in range(0, 7)] + [[5, 3], [3, 2, ':1.3'], [3, 2, ':1.03']]]
    cases = [P + h + probes([n]) for h in hs]
    # connections that skip Hello: the bus numbers them at their first message
    qs = [
        [[1, 2, n, 0], [1, 3, n, 0], [5, 2]],                                # an owner that never said Hello is lost
        [[1, 3, n, 0], [1, 2, n, 0], [1, 4, n, 0], [5, 2], [5, 3]],           # so is a waiting one; the next inherits
        [[1, 2, n, 1], [1, 4, n, 2], [7, 2], [2, 4, n], [5, 2]],              # replaced, late Hello
        [[5, 2], [1, 4, n, 0], [3, 3, ':1.2'], [3, 3, ':1.3'], [5, 4]],       # lost before it sent anything
        [[3, 4, n], [1, 2, n, 0], [7, 4], [7, 2], [5, 2], [1, 4, n, 4]],
        [[1, 4, n, 0], [1, 2, 'c.d', 0], [1, 2, n, 0], [1, 4, 'c.d', 0], [5, 4], [5, 2]],
        [[1, 2, n, 3], [1, 3, n, 3], [1, 4, n, 0], [2, 3, n], [5, 4], [5, 2]],
    ]
    for pre in ([[0], [6], [0], [6]], [[0], [6], [6], [6]], [[0], [0], [6], [6]], [[0], [6], [6], [0]]):
        cases += [pre + h + probes([n, 'c.d']) for h in qs]
        cases += [pre + h for h in hs[:8]]
    return cases


def run(ctx, res):
    res.rule = ('histories of Connect / RequestName (8 flag sets and a few wider flag words) / ReleaseName / '
                'GetNameOwner / ListQueuedOwners / Disconnect on the real Bus through raw bytes, each ending with '
                'the observer listing owner and queue of every name; exhaustive: every operation of every client '
                'from every name-table state reachable in fewer steps than the bound; random: length 40 with '
                'reconnects and odd names, 6% of the calls with a SENDER header field written by the client; forged-sender '
                'family: from 10 situations of a name every call of one client (8 flag words, release, lookups, on the '
                'contended and on a free name) x 7 claimed senders (own / the owner\'s / a waiting client\'s / the '
                'observer\'s / an unused unique name, a well-known name, the bus), then ordinary requests and '
                'releases, plus short histories in which every call carries a claimed sender - all judged by the '
                'reference table run on the operations as issued by the connection they arrived on; '
                'every third message is delivered in two reads.  Non-trivial: at least two state-changing operations.')
    evaluate_client_flags(client_flag_cases(), res)
    cases = gen_directed()
    cases += gen_forged(ctx)
    if ctx.quick:
        cases += gen_exhaustive(ctx, 4, 3, GOOD, res)
        cases += gen_exhaustive(ctx, 3, 4, GOOD, res)
        cases += gen_exhaustive(ctx, 3, 3, GOOD, res, skip_hello=True)
    else:
        cases += gen_exhaustive(ctx, 6, 3, GOOD, res)
        cases += gen_exhaustive(ctx, 5, 4, GOOD, res)
        cases += gen_exhaustive(ctx, 5, 3, GOOD, res, skip_hello=True)
    rnd = gen_random(ctx, ctx.n(1500, 20000), 40)
    cases += rnd
    res.exhaustive = True
    step = 20000
    for i in range(0, len(cases), step):
        evaluate(ctx, cases[i:i + step], res)
