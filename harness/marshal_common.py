"""Generators and converters shared by the marshalling checks (C01 C02 C05 C19 C03 C20).

Type trees:  'y' ... 'h' 'v' (one-character str) | ['a', t] | ['(', [t...]] | ['{', k, v]
Wire values: int | bool | bits(int, for 'd') | str | list (array / struct / dict entry [k, v]) | {'vt': vt, 'w': W} for 'v'
"""
import struct

BASIC_INT = {'y': (0, 255), 'n': (-2**15, 2**15 - 1), 'q': (0, 2**16 - 1), 'i': (-2**31, 2**31 - 1),
             'u': (0, 2**32 - 1), 'x': (-2**63, 2**63 - 1), 't': (0, 2**64 - 1)}
KEY_TYPES = 'ybnqiuxtdsog'
STRINGS = ['', 'a', 'hello', 'é', '日本語', '😀x', 'a b', 'x' * 17, '\x7f', 'tab\there', 'x' * 127, 'é' * 64, 'x' * 255, 'x' * 256]
PATHS = ['/', '/a', '/a/b', '/org/freedesktop/DBus', '/a_1/B2']
SIGS = ['', 'i', 'a{sv}', '(ii)', 'aai', 'v', 's' * 20,
        'y' * 127, 'y' * 128, 'i' * 200, 'ay' * 127, 'y' * 255]      # the one-byte length: 127/128 (sign bit) and the 255 limit
DOUBLES = [0, 0x8000000000000000, 0x3ff0000000000000, 0xbff8000000000000, 0x7ff0000000000000,
           0xfff0000000000000, 0x7ff8000000000000, 0x0000000000000001, 0x7fefffffffffffff,
           0x400921fb54442d18]


def show(t):
    if isinstance(t, str):
        return t
    if t[0] == 'a':
        return 'a' + show(t[1])
    if t[0] == '(':
        return '(' + ''.join(show(x) for x in t[1]) + ')'
    return '{' + show(t[1]) + show(t[2]) + '}'


def t_sexp(t):
    if isinstance(t, str):
        return ord(t)
    if t[0] == 'a':
        return [97, t_sexp(t[1])]
    if t[0] == '(':
        return [40, [t_sexp(x) for x in t[1]]]
    return [123, t_sexp(t[1]), t_sexp(t[2])]


def w_sexp(t, w):
    if isinstance(t, str):
        if t in BASIC_INT or t == 'h':
            return [0, w]
        if t == 'b':
            return [1, 1 if w else 0]
        if t == 'd':
            return [2, w]
        if t in 'sog':
            return [3, w.encode('utf-8')]
        if t == 'v':
            return [6, t_sexp(w['vt']), w_sexp(w['vt'], w['w'])]
        raise ValueError(t)
    if t[0] == 'a':
        return [4, [w_sexp(t[1], x) for x in w]]
    if t[0] == '(':
        return [5, [w_sexp(a, b) for a, b in zip(t[1], w)]]
    return [5, [w_sexp(t[1], w[0]), w_sexp(t[2], w[1])]]


def gen_type(rng, depth, allow_fd=False, allow_variant=True, top=True):
    r = rng.random()
    if depth <= 0 or r < 0.45:
        pool = 'ybnqiuxtdsog' + ('h' if allow_fd else '') + ('vv' if allow_variant else '')
        return rng.choice(pool)
    if r < 0.70:
        if rng.random() < 0.35:
            return ['a', ['{', rng.choice(KEY_TYPES), gen_type(rng, depth - 1, allow_fd, allow_variant, False)]]
        return ['a', gen_type(rng, depth - 1, allow_fd, allow_variant, False)]
    n = rng.choice([1, 1, 2, 2, 3, 4])
    return ['(', [gen_type(rng, depth - 1, allow_fd, allow_variant, False) for _ in range(n)]]


def gen_int(rng, t):
    lo, hi = BASIC_INT[t]
    return rng.choice([lo, hi, 0, 1, lo + 1, hi - 1, rng.randint(lo, hi), rng.randint(max(lo, -300), min(hi, 300))])


class FdCounter:
    def __init__(self):
        self.n = 0


def gen_w(rng, t, depth, fdc=None):
    """random wire value of type t"""
    if isinstance(t, str):
        if t in BASIC_INT:
            return gen_int(rng, t)
        if t == 'b':
            return rng.random() < 0.5
        if t == 'd':
            return rng.choice(DOUBLES) if rng.random() < 0.7 else struct.unpack('<Q', struct.pack('<d', rng.uniform(-1e6, 1e6)))[0]
        if t == 's':
            return rng.choice(STRINGS)
        if t == 'o':
            return rng.choice(PATHS)
        if t == 'g':
            return rng.choice(SIGS)
        if t == 'h':
            i = fdc.n
            fdc.n += 1
            return i
        if t == 'v':
            vt = gen_variant_type(rng, depth - 1)
            return {'vt': vt, 'w': gen_w(rng, vt, depth - 1, fdc)}
        raise ValueError(t)
    if t[0] == 'a':
        n = rng.choice([0, 0, 1, 1, 2, 3]) if depth > 0 else rng.choice([0, 1])
        et = t[1]
        if isinstance(et, list) and et[0] == '{':
            out, seen = [], set()
            for _ in range(n):
                k = gen_w(rng, et[1], depth - 1, fdc)
                kk = key_id(et[1], k)
                if kk in seen:
                    continue
                seen.add(kk)
                out.append([k, gen_w(rng, et[2], depth - 1, fdc)])
            return out
        return [gen_w(rng, et, depth - 1, fdc) for _ in range(n)]
    if t[0] == '(':
        return [gen_w(rng, x, depth - 1, fdc) for x in t[1]]
    return [gen_w(rng, t[1], depth - 1, fdc), gen_w(rng, t[2], depth - 1, fdc)]


def key_id(kt, k):
    """identity of a dict key under Python equality of the decoded value"""
    if kt == 'd':
        if k in (0, 0x8000000000000000):
            return ('d', 0)
        if (k & 0x7fffffffffffffff) > 0x7ff0000000000000:
            return ('nan', id(object()))     # never produced twice; NaN keys excluded below anyway
        return ('d', k)
    if kt == 'b':
        return ('n', 1 if k else 0)
    if kt in BASIC_INT:
        return ('n', k)
    return ('s', k)


def gen_variant_type(rng, depth, allow_v=False):
    """type of a variant's content: anything sigFromPy can infer exactly (no 'h'; a nested 'v'
    only as array element or dict value, where heterogeneous elements make it arise)"""
    r = rng.random()
    if allow_v and r < 0.25:
        return 'v'
    if depth <= 0 or r < 0.6:
        return rng.choice('ybnqiuxtdsogiis')
    if r < 0.85:
        if rng.random() < 0.4:
            return ['a', ['{', rng.choice('sisyqu'), gen_variant_type(rng, depth - 1, True)]]
        return ['a', gen_variant_type(rng, depth - 1, True)]
    return ['(', [gen_variant_type(rng, depth - 1) for _ in range(rng.choice([1, 2, 3]))]]


def py_class(v):
    return type(v)


def ref_infer(v):
    """reference type inference for a value sent as a variant (upstream documentation:
    wrapper classes exact, containers by their first element, heterogeneous -> variant)"""
    sig = getattr(v, 'dbusSignature', None)
    if sig is not None:
        return sig
    if isinstance(v, bool):
        return 'b'
    if isinstance(v, int):
        return 'i'
    if isinstance(v, float):
        return 'd'
    if isinstance(v, str):
        return 's'
    if isinstance(v, bytearray):
        return 'ay'
    if isinstance(v, list):
        if not v:
            return 'av'
        if all(isinstance(x, type(v[0])) for x in v[1:]):
            # elements of one Python class: the element type is inferred from one of them; the value is
            # inside the claim only if every element infers the same type (else which one is used matters)
            sigs = {ref_infer(x) for x in v}
            if len(sigs) != 1:
                raise TypeError('elements of one class infer different types')
            return 'a' + sigs.pop()
        return 'av'
    if isinstance(v, tuple):
        return '(' + ''.join(ref_infer(x) for x in v) + ')'
    if isinstance(v, dict):
        if not v:
            return 'a{sv}'
        items = list(v.items())
        k0, v0 = items[0]
        ksigs = {ref_infer(k) for k, _ in items}
        if len(ksigs) != 1:
            raise TypeError('keys infer different types')
        if all(isinstance(x, type(v0)) for _, x in items[1:]):
            # sigFromPy takes the types from the LAST pair it iterated, the documentation says "the" element:
            # only a dict whose pairs all infer the same type is unambiguous
            vsigs = {ref_infer(x) for _, x in items}
            if len(vsigs) != 1:
                raise TypeError('values of one class infer different types')
            return 'a{' + ksigs.pop() + vsigs.pop() + '}'
        return 'a{' + ksigs.pop() + 'v}'
    raise TypeError(v)


def bits_to_float(b):
    return struct.unpack('<d', struct.pack('<Q', b))[0]


def float_to_bits(f):
    return struct.unpack('<Q', struct.pack('<d', f))[0]


class Shapes:
    """choices of Python shape for a wire value"""

    def __init__(self, rng, marshal):
        self.rng = rng
        self.m = marshal
        self.wrap = {'y': marshal.Byte, 'b': marshal.Boolean, 'n': marshal.Int16, 'q': marshal.UInt16,
                     'i': marshal.Int32, 'u': marshal.UInt32, 'x': marshal.Int64, 't': marshal.UInt64,
                     'g': marshal.Signature, 'o': marshal.ObjectPath}

    def py(self, t, w, strict=False):
        """Python value encoding wire value w of type t.  strict: the value must make
        sigFromPy infer exactly show(t) (used for variant contents); returns None if impossible."""
        rng = self.rng
        if isinstance(t, str):
            if t in BASIC_INT:
                if strict:
                    return w if t == 'i' else self.wrap[t](w)
                r = rng.random()
                if r < 0.6:
                    return w
                if r < 0.9:
                    return self.wrap[rng.choice('ybnqiuxt')](w)   # any int subclass packs the same
                return bool(w) if w in (0, 1) else w
            if t == 'b':
                if strict:
                    return bool(w)
                return rng.choice([bool(w), int(w), self.wrap['b'](int(w))])
            if t == 'd':
                return bits_to_float(w)
            if t == 's':
                return w
            if t == 'o':
                return self.wrap['o'](w) if (strict or rng.random() < 0.4) else w
            if t == 'g':
                return self.wrap['g'](w) if (strict or rng.random() < 0.4) else w
            if t == 'h':
                return 100 + w      # the "descriptor" object attached at index w
            if t == 'v':
                v = self.py(w['vt'], w['w'], strict=True)
                if v is None or has_none(v):
                    return None
                try:
                    if ref_infer(v) != show(w['vt']):
                        return None
                except TypeError:
                    return None
                return v
            raise ValueError(t)
        if t[0] == 'a':
            et = t[1]
            if isinstance(et, list) and et[0] == '{':
                items = [(self.py(et[1], k, strict), self.py(et[2], v, strict)) for k, v in w]
                if strict:
                    if not items:
                        return None               # {} infers a{sv}
                    d = dict(items)
                    return d if len(d) == len(items) else None
                r = rng.random()
                d = None
                try:
                    d = dict(items)
                except TypeError:
                    pass
                if d is not None and len(d) == len(items) and r < 0.7:
                    return d
                return [rng.choice([tuple, list])(kv) for kv in items]
            items = [self.py(et, x, strict) for x in w]
            if strict:
                if not items:
                    return None                   # [] infers av
                return items
            if et == 'y' and rng.random() < 0.3 and all(type(x) is int for x in items):
                return bytearray(items)
            return items if rng.random() < 0.7 else tuple(items)
        if t[0] == '(':
            items = [self.py(a, b, strict) for a, b in zip(t[1], w)]
            if strict:
                return tuple(items)
            r = rng.random()
            if r < 0.4:
                return items
            if r < 0.8:
                return tuple(items)
            return make_obj(items)
        items = [self.py(t[1], w[0], strict), self.py(t[2], w[1], strict)]
        return tuple(items) if rng.random() < 0.5 else items


def has_none(v):
    if v is None:
        return True
    if isinstance(v, (list, tuple)):
        return any(has_none(x) for x in v)
    if isinstance(v, dict):
        return any(has_none(k) or has_none(x) for k, x in v.items())
    if hasattr(v, 'dbusOrder'):
        return any(has_none(getattr(v, a)) for a in v.dbusOrder)
    return False


class Obj(object):
    pass


def make_obj(items):
    o = Obj()
    o.dbusOrder = ['f%d' % i for i in range(len(items))]
    for i, x in enumerate(items):
        setattr(o, 'f%d' % i, x)
    return o


def expected(t, w, fds=None):
    """The Python value decoding must yield (property C01's read-back convention),
    in the canonical nested form of pv_form()."""
    if isinstance(t, str):
        if t in BASIC_INT:
            return [0, w]
        if t == 'b':
            return [1, 1 if w else 0]
        if t == 'd':
            return [2, w]
        if t in 'sog':
            return [3, w.encode('utf-8')]
        if t == 'h':
            return pv_form(fds[w]) if fds is not None and w < len(fds) else [10]
        if t == 'v':
            return expected(w['vt'], w['w'], fds)
        raise ValueError(t)
    if t[0] == 'a':
        et = t[1]
        if isinstance(et, list) and et[0] == '{':
            return [7, [[expected(et[1], k, fds), expected(et[2], v, fds)] for k, v in w]]
        return [5, [expected(et, x, fds) for x in w]]
    if t[0] == '(':
        return [5, [expected(a, b, fds) for a, b in zip(t[1], w)]]
    return [5, [expected(t[1], w[0], fds), expected(t[2], w[1], fds)]]


_WRAP_CODES = {'Byte': 'y', 'Boolean': 'b', 'Int16': 'n', 'UInt16': 'q', 'Int32': 'i', 'UInt32': 'u',
               'Int64': 'x', 'UInt64': 't', 'Signature': 'g', 'ObjectPath': 'o'}


def pv_form(v):
    """Python value -> the model's pyval coding as nested lists (what common.dump sends and
    common.load returns)."""
    if v is None:
        return [10]
    if isinstance(v, bool):
        return [1, 1 if v else 0]
    if isinstance(v, int):
        n = type(v).__name__
        if type(v) is int:
            return [0, int(v)]
        if n in _WRAP_CODES and type(v).__module__.endswith('marshal'):
            # the wrapper class is identified by its NAME: which DBus type it selects is what is under test
            return [9, ord(_WRAP_CODES[n]), [0, int(v)]]
        return [0, int(v)]
    if isinstance(v, float):
        return [2, float_to_bits(v)]
    if isinstance(v, str):
        n = type(v).__name__
        if type(v) is str:
            return [3, v.encode('utf-8')]
        if n in _WRAP_CODES and type(v).__module__.endswith('marshal'):
            return [9, ord(_WRAP_CODES[n]), [3, str(v).encode('utf-8')]]
        return [3, str(v).encode('utf-8')]
    if isinstance(v, (bytes, bytearray)):
        return [4, bytes(v)]
    if isinstance(v, list):
        return [5, [pv_form(x) for x in v]]
    if isinstance(v, tuple):
        return [6, [pv_form(x) for x in v]]
    if isinstance(v, dict):
        return [7, [[pv_form(k), pv_form(x)] for k, x in v.items()]]
    if hasattr(v, 'dbusOrder'):
        return [8, [pv_form(getattr(v, a)) for a in v.dbusOrder]]
    raise TypeError('no pyval form for %r' % (v,))


def norm_form(f):
    """normalise a pv_form the way decoding does: tuple -> list, bytearray -> list of ints,
    wrapper -> plain, object -> list (used by the C19 oracle)"""
    tag = f[0]
    if tag == 9:
        return norm_form(f[2])
    if tag in (5, 6, 8):
        return [5, [norm_form(x) for x in f[1]]]
    if tag == 4:
        return [5, [[0, b] for b in f[1]]]
    if tag == 7:
        return [7, [[norm_form(k), norm_form(v)] for k, v in f[1]]]
    return f


def classify_exc(e):
    return type(e).__name__
