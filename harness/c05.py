"""C05: hostile bytes are rejected (or decoded) in bounded work.

Implementation: txdbus.message.parseMessage / txdbus.marshal.unmarshal run under a sys.settrace line counter
(lines executed inside txdbus/*.py).  Model: Model/MarshalCost.v (Marshal.u_one instrumented with work counters,
parse_message with the signature header field validated) through OpsC05.

case kinds
  msg : {'kind': 'msg', 'raw': bytes [, 'fds': None | [int]]}               parseMessage(raw, fds)   (fds defaults to [])
  un  : {'kind': 'un', 'sig': str, 'data': bytes, 'off': int, 'le': bool, 'fds': None | [int]}   unmarshal(...)

compared (correspondence): Ok / Err class; when both succeed also the number of bytes consumed (un) or the message
type (msg) and the size of the decoded value (nodes + string bytes).  RecursionError is classed ResourceLimit: counted,
and required to occur only where the model nests deeper than 150 levels.
oracle (property): work = lines executed <= COST_A + COST_C * (model calls + model scan), the quantity the theorems bound
linearly in the input length (tracing runs up to that many lines, never less than HARD_CAP, then aborts: an abort IS a violation);
size(decoded) <= SIZE_A + |sig| + SIZE_K * |data|.  Cases above the typical-traffic budget LINE_A + LINE_B * len(input) but within the
model's account are counted in stats, not reported.
"""
import struct
import sys
import os

from harness import common
from harness import marshal_common as mc
from harness import c05_gen as g

ASSUMPTIONS = [
    'work is measured as lines executed inside txdbus/*.py (sys.settrace); time spent inside C functions (struct, codecs, slicing, '
    'string concatenation in genCompleteTypes) is not counted - it is bounded by the bytes they touch, which the model counts as '
    'string bytes (calls) and scanned signature characters (scan)',
    'the line budget constants LINE_A, LINE_B, the cost constants COST_A, COST_C and the size constants SIZE_A, SIZE_K were calibrated once on '
    'valid traffic (the seed messages and C01-style typed values) with a factor-of-10 margin; every run re-measures the valid-traffic maxima '
    'and records them in evidence next to the constants; the run reports the cost correspondence broken only when valid traffic comes '
    'within a factor of 3 of a budget (the factor of 10 is recorded, not demanded: harmless rewrites may add a few lines per value)',
    'RecursionError (interpreter recursion limit, default 1000 frames, 2 frames per container level) is classed ResourceLimit and not compared; '
    'it is an Exception, so like every other exception raised by parseMessage it propagates out of DBusProtocol.dataReceived / '
    'rawDBusMessageReceived into Twisted, which logs it and drops that one connection (modelled by the C04 builder; here only assumed)',
    'an exception escaping parseMessage inside dataReceived costs the peer only its own connection: Twisted\'s reactor catches exceptions '
    'from dataReceived, calls connectionLost on that transport and keeps serving the others (Twisted contract, not verified here)',
    'a Python str is represented by its UTF-8 encoding; a signature containing non-ASCII characters is compared on Ok/Err only '
    '(both sides reject the first non-ASCII type code they reach)',
    'exception classes are not compared, only success/failure (UnicodeDecodeError, struct.error, TypeError, KeyError, IndexError, '
    'RuntimeError(StopIteration), MarshallingError are all "Err")',
    'descriptors: parseMessage is given an empty descriptor list, unmarshal None or a short list of integers '
    '(theorem hypothesis fds_atomic: descriptor objects are atoms of size 1)',
    'theorem hypothesis wf_bytes: the input is a list of numbers < 256 (true of every Python bytes object); used only for the bound '
    '"a variant signature has at most 255 bytes"',
    'the repaired parseMessage tests len(m.signature) > 255 in characters; the model tests "more than 255 characters or more than 1020 '
    'bytes of UTF-8", which is the same predicate for every str the decoder can build (it only builds str values that passed the UTF-8 / '
    'ASCII decoder); that invariant is a representation convention of Model/Marshal.v (PStr = UTF-8 bytes), not a proved lemma',
    'reading of "work proportional to its length": the bound is the one the theorems prove (C05_work_linear, C05_parse_total: linear in the '
    'message length with explicit constants, header and variant signatures having at most 255 characters), not the constant of ordinary '
    'traffic; an input whose line count exceeds LINE_A + LINE_B*len but is accounted for by the model\'s calls + scan counters (deeply '
    'nested signatures are re-split at every level: up to ~1e4 lines per byte) is recorded in stats '
    '(above_typical_budget_but_within_proved_bound), an input whose line count exceeds what the counters explain is a violation',
    'Python evaluates genCompleteTypes lazily; the model charges one scan of the signature text per unmarshal() call up front (an upper bound)',
]

# calibrated constants (see res.extra['calibration'] for the measurements of the current run)
LINE_A, LINE_B = 5000, 300          # property budget: lines <= LINE_A + LINE_B * len(input)
COST_A, COST_C = 3000, 150          # cost correspondence: lines <= COST_A + COST_C * (calls + scan)
SIZE_A, SIZE_K = 64, 32             # size(decoded) <= SIZE_A + |sig| + SIZE_K * |data|
HARD_CAP = 600000                   # tracing aborts here (an endless loop must not hang the check)

SIG_BUDGET = 'work-exceeds-budget'
SIG_SIZE = 'output-exceeds-budget'


class _Abort(BaseException):
    pass


def _raise_stack_limit():
    """the model's counters are unary numbers; adding / printing millions of ticks recurses that deep in the extracted OCaml,
    so modelrun (a child of this process) gets the largest stack the hard limit allows"""
    try:
        import resource
        soft, hard = resource.getrlimit(resource.RLIMIT_STACK)
        if soft != hard:
            resource.setrlimit(resource.RLIMIT_STACK, (hard, hard))
    except Exception:
        pass


def traced(f, txdir, hard):
    """run f() counting lines executed in files under txdir; -> (class, value, lines)"""
    cnt = [0]

    def local(frame, ev, arg):
        if ev == 'line':
            cnt[0] += 1
            if cnt[0] > hard:
                raise _Abort()
        return local

    def glob(frame, ev, arg):
        if frame.f_code.co_filename.startswith(txdir):
            return local
        return None

    sys.settrace(glob)
    try:
        try:
            v = f()
            r = ('ok', v)
        except _Abort:
            r = ('abort', None)
        except RecursionError:
            r = ('reslimit', None)
        except MemoryError:
            r = ('reslimit', None)
        except Exception as e:
            r = ('err', type(e).__name__)
    finally:
        sys.settrace(None)
    return r[0], r[1], cnt[0]


def vsize(v):
    """nodes + bytes of text, iteratively (decoded values can be nested hundreds deep)"""
    n = 0
    stack = [v]
    while stack:
        x = stack.pop()
        n += 1
        if isinstance(x, str):
            n += len(x.encode('utf-8', 'surrogatepass'))
        elif isinstance(x, (list, tuple)):
            stack.extend(x)
        elif isinstance(x, dict):
            for k, y in x.items():
                stack.append(k)
                stack.append(y)
    return n


ATTRS = ['path', 'interface', 'member', 'error_name', 'reply_serial', 'destination', 'sender', 'signature', 'unix_fds']


def msg_size(m):
    n = 0
    for a in ATTRS:
        if a in m.__dict__:
            n += vsize(m.__dict__[a])
    if 'body' in m.__dict__ and m.__dict__['body'] is not None:
        n += sum(vsize(x) for x in m.__dict__['body'])
    return n


def input_len(c):
    if c['kind'] == 'msg':
        return len(c['raw'])
    return len(c['sig']) + len(c['data'])


def model_line(c):
    if c['kind'] == 'msg':
        mf = c.get('fds', [])
        return '(5 2 %s %s)' % (common.dump(c['raw']), '()' if mf is None else common.dump([[[0, x] for x in mf]]))
    fds = '()' if c['fds'] is None else common.dump([[[0, x] for x in c['fds']]])
    return '(5 1 0 %s %s %d %d %s)' % (common.dump(c['sig']), common.dump(bytes(c['data'])), c['off'], 1 if c['le'] else 0, fds)


def legacy_line(c):
    fds = '()' if c['fds'] is None else common.dump([[[0, x] for x in c['fds']]])
    return '(5 1 1 %s %s %d %d %s)' % (common.dump(c['sig']), common.dump(bytes(c['data'])), c['off'], 1 if c['le'] else 0, fds)


SIG_CANARY = 'valid-message-refused-after-hostile-input'


def canary_messages(message):
    """a few VALID messages (nested containers, variants, several top-level types); they must decode - to the same
    body - whatever was decoded before them.  Returns the raw bytes; canary_expect gives the bodies."""
    out = []
    for mk in (lambda: message.MethodCallMessage('/a', 'M', signature='a{sv}', body=[{'k': 1, 's': 'x'}]),
               lambda: message.SignalMessage('/a', 'S', 'a.b', signature='aai', body=[[[1, 2], [3]]]),
               lambda: message.MethodReturnMessage(7, signature='v', body=[[1, 'x', [2, 'y']]]),
               lambda: message.ErrorMessage('a.Err', 7, signature='s', body=['text']),
               lambda: message.MethodCallMessage('/a', 'N', signature='sua{sv}(yy)', body=['hello', 5, {'k': 1}, [1, 2]]),
               lambda: message.SignalMessage('/a', 'T', 'a.b', signature='iis', body=[1, 2, 'z'])):
        try:
            out.append(bytes(mk().rawMessage))
        except Exception:
            pass
    return out


CANARY_BODIES = [[{'k': 1, 's': 'x'}], [[[1, 2], [3]]], [[1, 'x', [2, 'y']]], ['text'], ['hello', 5, {'k': 1}, [1, 2]], [1, 2, 'z']]


def canary_failure(message, raws):
    """None if every valid message decodes now to its body; else why not - but only if the same bytes DO decode in a fresh
    process of the same tree (otherwise the tree simply cannot decode them, which is for the other oracles to report)"""
    why = None
    for i, r in enumerate(raws):
        try:
            m = message.parseMessage(r, [])
            if len(raws) == len(CANARY_BODIES) and m.body != CANARY_BODIES[i]:
                raise ValueError('decoded body %r, sent %r' % (m.body, CANARY_BODIES[i]))
        except Exception as e:
            why = '%s: %s' % (type(e).__name__, e)
            break
    if why is None:
        return None
    import subprocess
    code = ('import sys; from txdbus import message\n'
            'for h in sys.argv[1:]:\n    message.parseMessage(bytes.fromhex(h), [])\n')
    p = subprocess.run([sys.executable, '-c', code] + [r.hex() for r in raws], stdout=subprocess.PIPE, stderr=subprocess.STDOUT,
                       env=dict(os.environ, PYTHONPATH=os.path.dirname(os.path.dirname(os.path.abspath(message.__file__))),
                                PYTHONDONTWRITEBYTECODE='1'))
    return why if p.returncode == 0 else None


def replay_canary(c, res):
    """kind 'canary': decode the recorded hostile inputs in order, then the valid messages"""
    from txdbus import marshal, message
    raws = canary_messages(message)
    for h in c['after']:
        try:
            if h['kind'] == 'msg':
                mf = h.get('fds', [])
                message.parseMessage(bytes(h['raw']), None if mf is None else list(mf))
            else:
                marshal.unmarshal(h['sig'], bytes(h['data']), h['off'], h['le'], None if h['fds'] is None else list(h['fds']))
        except BaseException:
            pass
    res.count(['canary', len(c['after'])], nontrivial=True)
    why = canary_failure(message, raws)
    if why is not None:
        res.violate(c, 'after decoding %d malformed inputs (each of which only raised), a VALID message is refused: %s - the cost of '
                    'hostile bytes is not confined to the peer that sent them' % (len(c['after']), why), SIG_CANARY)


def evaluate(ctx, cases, res):
    from txdbus import marshal, message
    txdir = os.path.dirname(os.path.abspath(marshal.__file__)) + os.sep
    cases = list(cases)
    for c in [c for c in cases if c.get('kind') == 'canary']:
        replay_canary(c, res)
    cases = [c for c in cases if c.get('kind') != 'canary']
    if not cases:
        return
    import collections
    canary = canary_messages(message)     # only MARSHALLED here: their first decode in this process comes after hostile inputs
    canary_live = True
    recent_err = collections.deque(maxlen=120)
    nerr = 0
    _raise_stack_limit()
    outs = common.run_model([model_line(c) for c in cases])
    stats = res.extra.setdefault('stats', {'msg': 0, 'un': 0, 'impl_ok': 0, 'impl_err': 0, 'resource_limit': 0, 'aborted': 0,
                                           'model_deep': 0, 'max_lines': 0, 'max_lines_per_byte_x100': 0, 'max_lines_per_tick_x100': 0,
                                           'max_size_per_byte_x100': 0, 'above_typical_budget_but_within_proved_bound': 0,
                                           'max_lines_per_input_byte_within_proved_bound': 0, 'err_classes': {}})
    for c, o in zip(cases, outs):
        k = c['kind']
        stats[k] += 1
        # trace as far as the model's counters can explain (at least HARD_CAP): an aborted trace is then always unexplained work
        hard = max(HARD_CAP, COST_A + COST_C * (o[3] + o[4]))
        if k == 'msg':
            raw = bytes(c['raw'])
            mfds = c.get('fds', [])
            mfds = None if mfds is None else list(mfds)
            cls, val, lines = traced(lambda: message.parseMessage(raw, mfds), txdir, hard)
            obs = (val._messageType, msg_size(val)) if cls == 'ok' else None
            nsig, ndata = 0, len(raw)
        else:
            data = bytes(c['data'])
            fds = None if c['fds'] is None else list(c['fds'])
            cls, val, lines = traced(lambda: marshal.unmarshal(c['sig'], data, c['off'], c['le'], fds), txdir, hard)
            obs = (val[0], sum(vsize(x) for x in val[1])) if cls == 'ok' else None
            nsig, ndata = len(c['sig']), len(data)
        if cls == 'err':
            stats['err_classes'][val] = stats['err_classes'].get(val, 0) + 1
        if cls in ('err', 'reslimit', 'abort'):
            recent_err.append(c)
            nerr += 1
        if cls in ('err', 'reslimit', 'abort') or c.get('then_canary'):
            if canary_live and (nerr % 40 == 0 or c.get('then_canary')):
                why = canary_failure(message, canary)
                if why is not None:
                    canary_live = False
                    res.violate({'kind': 'canary', 'after': list(recent_err)},
                                'after decoding malformed inputs (each of which only raised), a VALID message is refused: %s - the cost '
                                'of hostile bytes is not confined to the peer that sent them' % why, SIG_CANARY)
        m_ok = o[0] == 1
        m_calls, m_scan, m_units, m_deep = o[3], o[4], o[5], o[6]
        m_obs = (o[1], o[2]) if m_ok else None
        ticks = m_calls + m_scan
        n_in = input_len(c)
        res.count(c, nontrivial=True)
        stats['max_lines'] = max(stats['max_lines'], lines)
        stats['max_lines_per_byte_x100'] = max(stats['max_lines_per_byte_x100'], 100 * lines // max(1, n_in))
        stats['max_lines_per_tick_x100'] = max(stats['max_lines_per_tick_x100'], 100 * lines // max(1, ticks))
        if m_deep:
            stats['model_deep'] += 1
        # ---- correspondence -------------------------------------------------------------------------
        if not m_ok and o[1] in (8, 9):
            res.disagree(c, cls, 'model error code %d (out of fuel / unmodelled)' % o[1], 'model_fuel')
        if cls == 'reslimit':
            stats['resource_limit'] += 1
            if not m_deep:
                res.disagree(c, 'RecursionError', 'model nests at most 150 levels', 'model_depth')
        elif cls == 'abort':
            stats['aborted'] += 1
        else:
            stats['impl_ok' if cls == 'ok' else 'impl_err'] += 1
            if (cls == 'ok') != m_ok:
                res.disagree(c, (cls, val if cls == 'err' else obs), ('ok', m_obs) if m_ok else ('err', o[1]), 'model_okerr')
            elif cls == 'ok' and tuple(obs) != tuple(m_obs):
                res.disagree(c, ('ok', obs), ('ok', m_obs), 'model_size')
        # ---- property oracle: work ------------------------------------------------------------------
        budget = LINE_A + LINE_B * n_in
        explained = COST_A + COST_C * ticks
        if lines > budget:
            if lines <= explained and cls != 'abort':
                # Above the budget calibrated on valid traffic, but accounted for by the model's counters, which the
                # theorems bound LINEARLY in the message length (C05_parse_total: calls <= 1042 + 3060*|raw|, scan <=
                # 1024*(1020 + 2160*|raw|); a header signature has at most 255 characters; for a direct unmarshal call
                # C05_work_linear: calls <= |sig| + max(|sig|,255)*2|data|, scan <= |sig| + max(|sig|,255)*calls).  The property asks for work
                # proportional to the length, not for the constant of ordinary traffic: recorded, not a violation
                # (deeply nested signatures make unmarshal re-split the signature text at every level).
                stats['above_typical_budget_but_within_proved_bound'] = stats.get('above_typical_budget_but_within_proved_bound', 0) + 1
                stats['max_lines_per_input_byte_within_proved_bound'] = max(
                    stats.get('max_lines_per_input_byte_within_proved_bound', 0), lines // max(1, n_in))
            else:
                res.violate(c, 'decoding %d input bytes executed %s%d lines (budget %d = %d + %d*len); the model predicts at most %d'
                            % (n_in, '> ' if cls == 'abort' else '', lines, budget, LINE_A, LINE_B, explained), SIG_BUDGET)
        elif lines > explained or cls == 'abort':
            res.disagree(c, 'lines=%d' % lines, 'calls=%d scan=%d -> at most %d lines' % (m_calls, m_scan, explained), 'model_cost')
        # ---- property oracle: size of what was built ---------------------------------------------------
        if cls == 'ok':
            sz = obs[1]
            stats['max_size_per_byte_x100'] = max(stats['max_size_per_byte_x100'], 100 * sz // max(1, ndata))
            if sz > SIZE_A + nsig + SIZE_K * ndata:
                res.violate(c, 'decoded value of size %d from %d data bytes and a %d-character signature (budget %d + |sig| + %d*|data|)'
                            % (sz, ndata, nsig, SIZE_A, SIZE_K), SIG_SIZE)
        if len(res.samples) < 6 and (cls != 'err' or stats['impl_err'] < 3):
            res.sample({'case': common.jsonable(c), 'impl': cls, 'lines': lines, 'model': o})


# -------------------------------------------------------------------------------------------------------------
def un(sig, data, off=0, le=True, fds=None):
    return {'kind': 'un', 'sig': sig, 'data': bytes(data), 'off': off, 'le': le, 'fds': fds}


def msg(raw):
    return {'kind': 'msg', 'raw': bytes(raw)}


def data_patterns(rng):
    """short data with small / lying leading lengths"""
    out = [b'', b'\0', b'\0' * 4, b'\0' * 8, b'\0' * 16, b'\0' * 40]
    for n in (0, 1, 4, 7, 8, 9, 16, 24, 0x7fffffff, 0xffffffff):
        for tail in (0, 4, 12, 28):
            out.append(struct.pack('<I', n) + b'\0' * tail)
            out.append(struct.pack('<I', n) + bytes(rng.randrange(3) for _ in range(tail)))
    out.append(bytes([1, 121, 0, 5] * 6))            # variants 'y'
    out.append(struct.pack('<I', 12) + bytes([1, 121, 0, 5] * 3))
    out.append(struct.pack('<I', 8) + bytes([1, 40, 41, 0]) * 4)
    return out


def gen_hostile_sigs(ctx):
    rng = ctx.rng
    pats = data_patterns(rng)
    sigs = g.ZERO_SIZE + g.UNTERMINATED + g.BRACE_OUTSIDE + g.UNKNOWN
    for s in sigs:
        for d in pats:
            yield un(s, d, 0, True, None)
        yield un(s, pats[rng.randrange(len(pats))], rng.choice([1, 3, 4, 8, 100]), False, [3, 4])
    # random signatures over the type alphabet (plus strays), random short data
    alpha = 'ybnqiuxtdsogavh(){}' + 'aa(({v'
    for _ in range(ctx.n(2500, 40000)):
        n = rng.choice([1, 2, 2, 3, 3, 4, 5, 6, 8, 12])
        s = ''.join(rng.choice(alpha) for _ in range(n))
        if rng.random() < 0.05:
            s += rng.choice(['z', 'é', '\x00'])
        d = pats[rng.randrange(len(pats))] if rng.random() < 0.6 else bytes(rng.choice([0, 0, 0, 1, 2, 4, 8, 255, rng.randrange(256)])
                                                                           for _ in range(rng.choice([0, 3, 8, 16, 33, 64])))
        yield un(s, d, rng.choice([0, 0, 0, 1, 4, 5, 8]), rng.random() < 0.7, rng.choice([None, None, [], [5, 6]]))
    # maximal nesting
    depths = [1, 2, 3, 8, 31, 32, 33, 64, 100, 127] if ctx.quick else [1, 2, 3, 8, 16, 31, 32, 33, 63, 64, 65, 100, 126, 127, 128, 200, 254, 255]
    for s in g.nesting_sigs(depths):
        if len(s) > 260 and ctx.quick:
            continue
        yield un(s, b'\x05', 0, True, None)
        yield un(s, b'', 0, True, None)
        yield un(s, b'\0' * 64, 0, False, None)
        yield un(s, struct.pack('<I', 8) + b'\x01' * 40, 0, True, None)
    for n in ([1, 5, 100, 127, 254] if ctx.quick else [1, 2, 5, 50, 100, 127, 200, 254, 255, 300, 400]):
        for le in (True, False):
            d = g.nested_array_data(n, le)
            yield un('a' * n + 'y', d, 0, le, None)
            yield un('a' * n + 'y', d[:-1], 0, le, None)
            yield un('a' * n + 'y', d + b'\0', 0, le, None)
    # arrays of deeply nested structs: work per element grows with the square of the nesting depth
    for depth, count in ([(8, 8), (20, 4), (60, 3), (127, 2)] if ctx.quick else [(4, 50), (8, 50), (16, 20), (20, 20), (32, 20), (60, 10), (127, 5), (127, 20)]):
        s = 'a' + '(' * depth + 'y' + ')' * depth
        d = struct.pack('<I', 8 * count - 7) + b'\0' * 4 + (b'\x07' + b'\0' * 7) * (count - 1) + b'\x07'
        yield un(s, d, 0, True, None)
    # deep variant nesting: the depth comes from the data, not from the signature -> RecursionError territory
    for n in ([1, 10, 100, 160, 340, 600] if ctx.quick else [1, 10, 100, 140, 150, 160, 250, 330, 340, 400, 600, 1000, 3000]):
        d = b'\x01v\x00' * n + b'\x01y\x00\x09'
        yield un('v', d, 0, True, None)
        yield un('v', d[:-1], 0, True, None)
        d2 = b''
        for i in range(n):                                     # v -> (v) -> v ... structs force 8-alignment
            o = len(d2) + 4
            d2 += b'\x03(v)\x00'
            d2 += b'\0' * ((-len(d2)) % 8)
        yield un('v', d2 + b'\x01y\x00\x09', 0, True, None)
    # variants that START off an 8-byte boundary and hold a struct: y v{(yv)} ... - every level is y, the variant's
    # signature at 8k+1, one pad byte, the struct at 8(k+1); complete, and cut off inside the innermost levels (an
    # error found at the bottom must not be re-tried at every level on the way up)
    for n in ([4, 12, 22, 30] if ctx.quick else [1, 2, 4, 8, 12, 16, 20, 22, 24, 26, 30, 40, 60]):
        d = (b'\x07' + b'\x04(yv)\x00' + b'\x00') * n + b'\x07' + b'\x01y\x00\x09'
        for cut in (0, 1, 2, 4, 5, 9, 12):
            yield un('yv', d[:len(d) - cut], 0, True, None)


def gen_typed_mutations(ctx):
    """valid typed values (C01 generator, independent encoder), then lying lengths / truncations / flips"""
    rng = ctx.rng
    for _ in range(ctx.n(150, 2500)):
        ts, ws = g.gen_body(rng, depth=rng.choice([1, 2, 3]), allow_fd=rng.random() < 0.2)
        le = rng.random() < 0.6
        off = rng.choice([0, 0, 0, 4, 8, 3])
        sig = ''.join(mc.show(t) for t in ts)
        data = b'\xaa' * off + g.enc_seq(ts, ws, off, le)
        fds = [7, 8, 9] if 'h' in sig else rng.choice([None, []])
        yield ('valid', un(sig, data, off, le, fds))
        for d in g.word_lies(data, le):
            yield ('lie', un(sig, d, off, le, fds))
        if len(data) <= 120:
            for d in g.truncations(data):
                yield ('trunc', un(sig, d, off, le, fds))
        if len(data) <= 48:
            for d in g.bit_flips(data):
                yield ('flip', un(sig, d, off, le, fds))
        # the right data under a neighbouring signature
        if sig:
            i = rng.randrange(len(sig))
            yield ('sigmut', un(sig[:i] + rng.choice('ybnqiuxtdsogav(){}h') + sig[i + 1:], data, off, le, fds))
            yield ('sigmut', un(sig[:i] + sig[i + 1:], data, off, le, fds))


def sig_field_cases(ctx):
    """the signature header field (code 8) carried with a type other than 'g', or over-long (D35)"""
    rng = ctx.rng
    deep = lambda n: '(' * n + 'y' + ')' * n
    vals = [('g', 'y'), ('s', 'y'), ('o', 'y'), ('s', ''), ('u', 5), ('u', 0), ('b', True), ('b', False), ('d', 0x3ff0000000000000), ('d', 0),
            (['a', 's'], ['y']), (['a', 's'], ['y', 'y']), (['a', 's'], ['a', 'y']), (['a', 's'], ['(', 'y', 'y', ')']), (['a', 's'], ['xyz']),
            (['a', 's'], []), (['a', ['a', 's']], [['y', 'q']]), (['a', ['{', 'u', 's']], [[0, 'y'], [1, 'y']]), (['a', ['{', 'u', 's']], [[1, 'y']]),
            (['a', ['{', 'y', 's']], [[0, 'y']]), (['(', ['s', 's']], ['y', 'y']), (['a', 'y'], [121]), ('v', {'vt': 's', 'w': 'y'}),
            (['a', 'v'], [{'vt': 's', 'w': 'y'}]), ('h', 0), ('s', 'é'), ('s', 'yéy'), ('s', 'y' * 255), ('s', 'y' * 256), ('s', 'y' * 300),
            ('g', 'y' * 255), ('s', 'é' * 255), ('s', 'é' * 256), ('o', 'y' * 256), ('s', deep(127)), ('s', deep(128)), ('s', deep(150)),
            ('s', 'a' + deep(127)), ('s', 'a' + deep(200)), ('s', 'a' + deep(400)), ('x', -1), ('n', 7), ('t', 2**63)]
    for vt, w in vals:
        for le in (True, False):
            for body in (b'\x05', b'', struct.pack('<I' if le else '>I', 57) + b'\0' * 4 + (b'\x07' + b'\0' * 7) * 8,
                         bytes(range(1, 64)), b'\x01' * 300):
                fields = [(5, 'u', 7), (8, vt, w)]
                if rng.random() < 0.5:
                    fields.reverse()
                yield msg(g.mk_msg(le, 2, 0, 3, fields, body))
    # two signature fields: the later one wins
    yield msg(g.mk_msg(True, 2, 0, 3, [(5, 'u', 7), (8, 's', 'y' * 300), (8, 'g', 'y')], b'\x05'))
    yield msg(g.mk_msg(True, 2, 0, 3, [(5, 'u', 7), (8, 'g', 'y'), (8, 's', 'y' * 300)], b'\x05'))
    yield msg(g.mk_msg(True, 2, 0, 3, [(5, 'u', 7), (8, 'g', 'y'), (8, 'u', 0)], b'\x05'))
    # deep variants inside header fields
    for n in (10, 100, 160, 340, 600):
        w = b'\x01v\x00' * n + b'\x01y\x00\x09'
        hdr_fields = bytes([42]) + w
        e = '<'
        hdr = b'l' + bytes([2, 0, 1]) + struct.pack(e + 'III', 0, 1, len(hdr_fields)) + hdr_fields
        yield msg(hdr + b'\0' * ((-len(hdr)) % 8))


def unix_fds_cases(ctx):
    """the UNIX_FDS header field (code 9) bounds the descriptor list given to the body decoder (D60): oobFDs[:unix_fds].
    Hostile: non-integer types (the slice raises), negative via signed types, huge, bool, None (an 'h' past the list),
    repeated, absent; bodies that index inside / outside the list"""
    rng = ctx.rng
    vals = [('u', 0), ('u', 1), ('u', 2), ('u', 3), ('u', 2**32 - 1), ('u', 2**31), ('i', -1), ('i', -2), ('i', -3), ('i', -2**31),
            ('i', 2), ('n', -1), ('n', 1), ('x', -1), ('x', 2**62), ('x', -2**63), ('t', 2**64 - 1), ('t', 1), ('y', 1), ('y', 255), ('q', 2),
            ('b', True), ('b', False), ('o', '/a'), ('o', '/org/freedesktop/DBus'), ('s', 'x'), ('s', ''), ('s', '2'), ('g', 'u'), ('g', ''),
            ('d', 0), ('d', 0x3ff0000000000000), ('d', 0x4000000000000000), ('v', {'vt': 'u', 'w': 1}), ('v', {'vt': 's', 'w': 'x'}),
            ('v', {'vt': 'i', 'w': -1}), (['a', 'u'], [1]), (['a', 'u'], []), (['(', ['u']], [1]), (['a', ['{', 'u', 'u']], [[1, 1]]),
            ('h', 0), ('h', 1), ('h', 9), None]
    bodies = [(['h', 'h'], [0, 1]), ([['a', 'h']], [[0, 1, 2, 5]]), (['y'], [7]), (['h'], [2**32 - 1]), None]
    for fv in vals:
        for bi, bd in enumerate(bodies):
            for fds in ([], [5, 6, 7], None, [1]):
                le = rng.random() < 0.7
                fields = [(5, 'u', 7)]
                body = b''
                if bd is not None:
                    ts, ws = bd
                    body = g.enc_seq(ts, ws, 0, le)
                    fields.append((8, 'g', ''.join(mc.show(t) for t in ts)))
                if fv is not None:
                    fields.append((9, fv[0], fv[1]))
                    if rng.random() < 0.15:
                        fields.append((9, 'u', rng.choice([0, 1, 2])))      # a later UNIX_FDS field wins
                rng.shuffle(fields)
                c = msg(g.mk_msg(le, rng.choice([1, 2, 2, 4]), 0, 3, fields, body))
                c['fds'] = fds
                yield c


def gen_cases(ctx):
    rng = ctx.rng
    kinds = {}

    def note(k, c):
        kinds[k] = kinds.get(k, 0) + 1
        return c
    # every proper prefix of the canary messages FIRST: whatever a failing decode leaves behind in the process
    # (caches, counters) is then in place when the complete messages are decoded by the canary oracle
    from txdbus import message as _message
    import struct as _struct
    cans = canary_messages(_message)
    for i, raw in enumerate(cans):
        # ONE cut per canary, inside its body after the first value (a decode that fails part-way through the signature);
        # more cuts in this process would only meet state the first one left behind
        harr = _struct.unpack_from('<I', raw, 12)[0]
        body_at = (16 + harr + 7) & ~7
        n = min(len(raw) - 1, body_at + max(1, (len(raw) - body_at) // 3))
        c = msg(raw[:n])
        if i == len(cans) - 1:
            c['then_canary'] = True      # decode the complete canaries right after these failing decodes
        yield note('canary-trunc', c)
    seeds = g.seed_messages(rng, ctx.n(36, 60))
    for s in seeds:
        yield note('seed', msg(s))
    for i, s in enumerate(seeds):
        for t in g.truncations(s):
            yield note('msg-trunc', msg(t))
        for f in g.bit_flips(s):
            yield note('msg-flip', msg(f))
        if ctx.quick and i % 3:
            continue
        for w in g.word_lies(s, s[0:1] == b'l'):
            yield note('msg-lie', msg(w))
    if not ctx.quick:
        for s in seeds[:20]:
            for _ in range(400):                 # two random byte replacements
                b = bytearray(s)
                for _ in range(2):
                    b[rng.randrange(len(b))] = rng.choice([0, 1, 255, 0x61, 0x28, 0x76, 0x7b, rng.randrange(256)])
                yield note('msg-2byte', msg(bytes(b)))
    for _ in range(ctx.n(800, 10000)):           # random bytes behind a plausible fixed header
        n = rng.choice([0, 1, 8, 15, 16, 17, 24, 40, 80])
        le = rng.random() < 0.5
        b = (b'l' if le else b'B') + bytes([rng.choice([0, 1, 2, 3, 4, 5, 255]), rng.randrange(4), 1]) + bytes(rng.choice([0, 0, 1, 8, 16, rng.randrange(256)]) for _ in range(n))
        yield note('msg-random', msg(b[:rng.randrange(len(b) + 1)] if rng.random() < 0.3 else b))
    for c in sig_field_cases(ctx):
        yield note('msg-sigfield', c)
    for c in unix_fds_cases(ctx):
        yield note('msg-unixfds', c)
    for c in gen_hostile_sigs(ctx):
        yield note('un-hostile-sig', c)
    for k, c in gen_typed_mutations(ctx):
        yield note('un-' + k, c)
    ctx._c05_kinds = kinds


def calibrate(ctx, res):
    """valid traffic measured against the constants (recorded; the constants themselves are fixed)"""
    from txdbus import marshal, message
    txdir = os.path.dirname(os.path.abspath(marshal.__file__)) + os.sep
    rng = common.random.Random(20240905)
    seeds = g.seed_messages(rng, 60)
    cases = [msg(s) for s in seeds]
    outs = common.run_model([model_line(c) for c in cases])
    worst = {'lines_per_byte': 0.0, 'lines_fixed': 0, 'lines_per_tick': 0.0, 'size_per_byte': 0.0}
    for c, o in zip(cases, outs):
        cls, val, lines = traced(lambda: message.parseMessage(c['raw'], []), txdir, HARD_CAP)
        n = len(c['raw'])
        worst['lines_per_byte'] = max(worst['lines_per_byte'], round(lines / n, 2))
        worst['lines_fixed'] = max(worst['lines_fixed'], lines if n <= 64 else 0)
        worst['lines_per_tick'] = max(worst['lines_per_tick'], round(lines / max(1, o[3] + o[4]), 2))
        if cls == 'ok':
            worst['size_per_byte'] = max(worst['size_per_byte'], round(msg_size(val) / n, 2))
    res.extra['calibration'] = {
        'constants': {'LINE_A': LINE_A, 'LINE_B': LINE_B, 'COST_A': COST_A, 'COST_C': COST_C, 'SIZE_A': SIZE_A, 'SIZE_K': SIZE_K,
                      'HARD_CAP': HARD_CAP},
        'valid_traffic_maxima_this_run': worst,
        'rule': 'LINE_B >= 10 * max lines/byte, LINE_A >= 10 * max lines of a message of <= 64 bytes, COST_C >= 10 * max lines/(calls+scan), '
                'SIZE_K >= 10 * max size/byte over 60 valid messages (4 types, both byte orders, nested typed bodies)',
    }
    ok = (LINE_B >= 10 * worst['lines_per_byte'] and LINE_A >= 10 * worst['lines_fixed'] and COST_C >= 10 * worst['lines_per_tick']
          and SIZE_K >= 10 * worst['size_per_byte'])
    res.extra['calibration']['margin_of_10_holds'] = ok
    # The factor of 10 is how the constants were chosen on the pinned tree; it is recorded, not demanded: a harmless
    # rewrite that executes a few per cent more interpreter lines per message (a helper call per value, say) must not
    # alarm.  What is demanded is that valid traffic stays a factor of 3 inside the budgets - below that the budgets
    # could no longer tell ordinary traffic from disproportionate work and the cost correspondence is reported broken.
    gate = (LINE_B >= 3 * worst['lines_per_byte'] and LINE_A >= 3 * worst['lines_fixed'] and COST_C >= 3 * worst['lines_per_tick']
            and SIZE_K >= 3 * worst['size_per_byte'])
    res.extra['calibration']['margin_of_3_holds'] = gate
    return gate


def legacy_distinguished(ctx, res):
    """inputs on which the pre-repair definitions differ from the current ones (D01 array loop, D35 signature field)"""
    pats = data_patterns(common.random.Random(1))
    cs = [un(s, d) for s in g.ZERO_SIZE for d in pats[:30]]
    cur = common.run_model([model_line(c) for c in cs])
    leg = common.run_model([legacy_line(c) for c in cs])
    d01 = sum(1 for a, b in zip(cur, leg) if a[:3] != b[:3])
    ms = list(sig_field_cases(common.Ctx('C05', 'quick', 1, ctx.repo)))
    mo = common.run_model([model_line(c) for c in ms])
    d30 = sum(1 for o in mo if (o[0] == 1) != (o[7] == 1))
    res.extra['legacy_variants_distinguished'] = {'D01_unmarshal_array_zero_progress': d01, 'D35_signature_field_type': d30,
                                                  'fraction': '%d/2' % ((d01 > 0) + (d30 > 0))}


def run(ctx, res):
    res.rule = ('every truncation and every single-bit flip of the seed messages (4 types, both byte orders, nested typed bodies), aligned-word '
                'replacement by lying lengths, random bytes behind a fixed header, signature header field of the wrong type or length; for '
                'unmarshal: grammar-directed hostile signatures (zero-size elements, unterminated containers, "a" last, "{" outside an array, '
                'unknown codes, nesting up to 255) x short data with lying lengths, deep variant nesting, typed values with lying lengths / '
                'truncations / bit flips / neighbouring signatures; non-trivial: all; distinct by hash')
    if not calibrate(ctx, res):
        res.disagree({'kind': 'calibration'}, res.extra['calibration']['valid_traffic_maxima_this_run'],
                     res.extra['calibration']['constants'], 'valid traffic is no longer a factor of 3 inside the budgets')
    legacy_distinguished(ctx, res)
    batch = []
    for c in gen_cases(ctx):
        batch.append(c)
        if len(batch) >= 20000:
            evaluate(ctx, batch, res)
            batch = []
    if batch:
        evaluate(ctx, batch, res)
    res.extra['kinds'] = getattr(ctx, '_c05_kinds', {})
