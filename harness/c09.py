"""C09 correspondence: txdbus.client.connect (endpoint list walk), DBusClientFactory's Deferred,
connectionAuthenticated -> Hello -> _cbGotHello, DBusClientConnection.connectionLost with its disconnect
callbacks / pending calls / timers, DBusObjectHandler's proxy registry and RemoteDBusObject's disconnect
callbacks, getDBusEndpoints' address-list parsing  vs  Model/Connect.v (model) and Spec/ConnectSpec.v (oracle).

A case is [address entries, first serial, events]:
  address entry = [kind 0 unix | 1 tcp | 2 nonce-tcp | 3 other, variant]     (the text comes from ADDR_TEXT)
  event         = see coq/Model/OpsC09.v
The real client.connect() runs with getDBusEndpoints wrapped so that each endpoint object it returns is
replaced by a fake whose connect(factory) hands back a Deferred the harness fires when the case says so
(success: factory.buildProtocol + makeConnection on a fake transport).  The harness then plays the bus:
handshake lines, the Hello reply, replies to calls, and decides when the transport closes.
txdbus.client.reactor is a task.Clock."""
import itertools
import os

from harness import common
from harness import c08

ASSUMPTIONS = [
    'address lists consist of well-formed unix (path= / abstract= / tmpdir=), tcp and nonce-tcp entries plus '
    'entries of other transports (launchd:, autolaunch:, unixexec:, empty), which yield no endpoint; a tcp entry '
    'without host/port or a unix entry without path makes getDBusEndpoints raise inside connect() before any '
    'Deferred exists - outside the address lists quantified over',
    'an unreachable endpoint errbacks the Deferred of endpoint.connect(factory) with one of: ConnectionRefusedError, '
    'DNSLookupError, TimeoutError, ConnectingCancelledError, NoRouteError, a plain Exception, ConnectError, ValueError, '
    'FileNotFoundError, UnknownHostError (chosen from the position in the history); an endpoint.connect that RAISES '
    'instead of returning a Deferred is not exercised: Twisted endpoints do not, and the unchanged code lets such an '
    'exception escape from connect() / from the previous endpoint\'s errback',
    'endpoint.connect(factory) always answers (Twisted endpoints errback on refusal or timeout); a bus that never '
    'answers the handshake or Hello leaves the connect Deferred pending: txdbus has no connect timeout and the '
    'property lists no such case',
    'after a refused authentication the client calls transport.loseConnection(); the failure is due when the '
    'transport then reports the close (a real transport always does), not earlier',
    'the authentication exchange is reduced to its verdict (accepted: OK <guid> possibly after REJECTED; refused: '
    'mechanisms exhausted, unknown command, OK without or with a malformed guid); the exchange itself is C07',
    'Twisted delivers connectionLost once per transport and no data afterwards: a second loss event, and bus '
    'messages after the loss or before BEGIN, are not fed to the protocol (the model ignores them likewise)',
    'the user can act on the connection only after connect() has handed it over; user events before that are skipped',
    'disconnect callbacks record that they ran and then perform the actions the case assigns to them: issue a '
    'reply-expecting call (with or without timeout), register or cancel a disconnect callback on the connection or on '
    'a proxy; a cancel that the library answers with ValueError is caught by the callback.  They never let an '
    'exception escape (a raising connection-level callback aborts connectionLost: see '
    'outside_scope_observation_raising_callback in the evidence).  Callbacks on the Deferreds of calls stay passive '
    '(an errback that issues a call from inside the loop over _pendingCalls: see C08)',
    'a callback may also obtain a new explicit-interface proxy from the dying connection and register a callback on it; '
    'the harness keeps a strong reference to it.  A callback that drops the last reference to a sibling proxy (weakref '
    'liveness) is not examined: the harness holds every proxy',
    'no proxy-level callback registers or cancels a callback on a DIFFERENT proxy (the code visits the proxies in the '
    'iteration order of a WeakSet and copies each list when it gets there, so the result would depend on that order; '
    'the model takes every list when the proxy phase starts); no callback registers itself, directly or through '
    'another (harmless on the repaired tree, but the unrepaired loop would never return and hang a run against it)',
    'the caller may cancel the Deferred callRemote returned (event 8): the harness calls d.cancel() on it; Deferreds of '
    'getRemoteObject and the connect Deferred are not cancelled by the harness',
    'two connections in one process share the reactor and the process-wide serial counter and nothing else: each must '
    'agree with the single-connection model run alone on its own events (a message received on B is an event of B '
    'whatever reply_serial it carries), and an event of one must leave everything observable of the other unchanged',
    'several connect() calls in one process (harness/c09_re.py: reconnects and second connections, mostly with the same '
    'address string, all on one reactor; real getDBusEndpoints and real Twisted endpoints on a reactor that records '
    'connectUNIX / connectTCP): every connect() is a connecting history of its own - it must agree with the '
    'single-connection model run alone on its events and fire as the specification demands of them; that the attempts '
    'go to the usable entries of the round\'s own address list in listed order is checked in Python directly from the '
    'property text against the address table ADDR_TEXT (the model has no notion of a second connect()).  An attempt is '
    'answered through the factory the endpoint handed to the reactor (clientConnectionFailed / buildProtocol), as a '
    'Twisted connector does',
    'after the last event of a case virtual time is advanced far beyond every timeout: whatever is still armed fires, '
    'and the model lets every armed timer run likewise',
    '"live proxy": the harness keeps a strong reference to every proxy it obtained; what happens to callbacks of '
    'garbage-collected proxies is not constrained by the property and not examined',
    'introspection replies: a reply carrying one string is given the body of a fixed valid introspection document '
    'when the request is marked "parses", and a non-XML string otherwise (XML parsing is C15)',
    'a Hello return without a value still counts as success of Hello (the Deferred fires with the connection)',
    'only the kind of the connect result (connection / failure) is compared, not the exception class or text',
    'within one event the order of completions and of callback runs is not compared (multisets are)',
    'timer expiry is triggered by resetting that delayed call to "now" on the virtual clock; that timers do not '
    'fire early is C08',
]

MAXS = 2 ** 32 - 1

GOOD_XML = ('<!DOCTYPE node PUBLIC "-//freedesktop//DTD D-BUS Object Introspection 1.0//EN" '
            '"http://www.freedesktop.org/standards/dbus/1.0/introspect.dtd">'
            '<node><interface name="org.x.C09Probe"><method name="m"><arg direction="in" type="s"/></method>'
            '<signal name="sg"><arg type="i"/></signal></interface></node>')
BAD_XML = 'this is not an introspection document'

PID = os.getpid()

# text of an address entry and, independently, what endpoint it must yield (None: no endpoint)
ADDR_TEXT = {
    (0, 0): ('unix:path=/tmp/c09-bus', ('unix', '/tmp/c09-bus')),
    (0, 1): ('unix:abstract=/tmp/c09-abs', ('unix', '\0/tmp/c09-abs')),
    (0, 2): ('unix:tmpdir=/tmp/c09-dir', ('unix', '/tmp/c09-dir/dbus-%d' % PID)),
    (0, 3): ('unix:path=/run/c09,guid=0123456789abcdef', ('unix', '/run/c09')),
    (1, 0): ('tcp:host=localhost,port=1234', ('tcp', 'localhost', 1234)),
    (1, 1): ('tcp:host=127.0.0.1,port=55,family=ipv4', ('tcp', '127.0.0.1', 55)),
    (1, 2): ('tcp:port=7,host=bus.example.org', ('tcp', 'bus.example.org', 7)),
    (2, 0): ('nonce-tcp:host=localhost,port=4321,noncefile=/tmp/c09-nonce', ('tcp', 'localhost', 4321)),
    (2, 1): ('nonce-tcp:noncefile=/n,host=10.0.0.1,port=9', ('tcp', '10.0.0.1', 9)),
    (3, 0): ('launchd:env=DBUS_LAUNCHD_SESSION_BUS_SOCKET', None),
    (3, 1): ('autolaunch:', None),
    (3, 2): ('', None),
    (3, 3): ('unixexec:path=/bin/false,argv1=x', None),
}
VARIANTS = {k: sorted(v for (kk, v) in ADDR_TEXT if kk == k) for k in range(4)}

AUTH_OK = [
    [b'OK 1234abcd\r\n'],
    [b'REJECTED EXTERNAL DBUS_COOKIE_SHA1\r\n', b'OK 00ff\r\n'],
    [b'OK 12', b'34\r\n'],
    [b'REJECTED\r\nREJECTED\r\nOK deadbeef\r\n'],
]
AUTH_REFUSED = [
    [b'REJECTED\r\nREJECTED\r\nREJECTED\r\n'],
    [b'REJECTED\r\n', b'REJECTED\r\n', b'REJECTED\r\n'],
    [b'BOGUS command\r\n'],
    [b'OK\r\n'],
    [b'OK zz-not-hex\r\n'],
    [b'REJECTED\r\n', b'ERROR\r\n', b'ERROR\r\n'],
]

HELLO_OK = [[['s'], [':1.42']], [['s'], [':1.7']], [[], []], [['ss'], [':1.1', 'x']]]
HELLO_ERR = [['org.freedesktop.DBus.Error.AccessDenied', [['s'], ['no']]],
             ['org.freedesktop.DBus.Error.LimitsExceeded', [[], []]]]


# --------------------------------------------------------------------------
class FakeEndpoint:
    def __init__(self, real, idx, drv):
        self.real, self.idx, self.drv = real, idx, drv
        self.d = None
        self.factory = None

    def connect(self, factory):
        from twisted.internet import defer
        self.drv.attempts.append(self.idx)
        self.factory = factory
        self.d = defer.Deferred()
        d = self.d
        if self.drv.sync_queue:
            # this endpoint answers before connect(factory) returns
            self.drv.resolve_endpoint(self, self.drv.sync_queue.pop(0), inside_connect=True)
        return d


class Driver:
    """One case against the implementation."""

    def __init__(self, im, case, sync=False, shared_clock=None):
        self.im = im
        self.shared_clock = shared_clock      # a second connection in the same process: same reactor, serials go on
        self.sync_queue = []
        if sync:
            for e in case[2]:
                if e[0] not in (0, 1):
                    break
                self.sync_queue.append(e[0])
        self.nsync = len(self.sync_queue)
        self.addr, self.s0, self.events = case[0], case[1], case[2]
        self.acts = {a[0]: a[1] for a in (case[3] if len(case) > 3 else [])}
        self.in_loss = False
        self.issued_in_loss = []      # call ids issued by callbacks while connectionLost runs
        self.attempts = []
        self.eps = []
        self.parsed = None
        self.fired = []           # 0 ready / 1 failed, in order
        self.conn = None          # handed over by the Deferred of connect()
        self.proto = None
        self.srv = 'none'         # none | auth | begun | closed : what the harness, as bus, knows
        self.lost = False
        self.done = []            # [call id, outcome]
        self.ran = []             # [owner, cb, reason]
        self.objdone = []         # [request, ok]
        self.reasons = {}
        self.next_id = 1          # Deferred 0 is Hello
        self.nreq = 0
        self.proxies = {}         # request -> RemoteDBusObject (strong reference: "live")
        self.intro = {}           # serial of an Introspect call -> parses
        self.timer_of = {}        # id(DelayedCall) -> serial
        self.cbfun = {}
        self.regs = []            # the harness's own books: (owner, cb) registered and not cancelled
        self.faults = []
        self.connect_raised = None
        self.fail_count = 0
        self.fail_kinds = []
        self.deferreds = {}       # call id -> the Deferred callRemote returned
        self.serial_of = {}
        self.cancelled = []       # call ids whose Deferred the caller cancelled while it had not fired
        self.others = []
        self.ep_leftover = []
        self.raised = False
        self.regs_at_loss = []
        self.issued_at_loss = 0
        self.issued_after_loss = 0
        self.keep = []

    # -- connect() with fake endpoints
    def start(self):
        im = self.im
        if self.shared_clock is None:
            self.clock = im.task.Clock()
            im.message.DBusMessage._nextSerial = self.s0
        else:
            self.clock = self.shared_clock
            assert im.message.DBusMessage._nextSerial == self.s0, 'the serial counter is process-wide'
        im.client.reactor = self.clock
        text = ';'.join(ADDR_TEXT[(k, v)][0] for k, v in self.addr)
        import txdbus.endpoints as eps_mod
        real = eps_mod.getDBusEndpoints
        drv = self

        def wrapped(reactor, busAddress, client=True):
            lst = real(reactor, busAddress, client)
            drv.parsed = [describe_endpoint(e) for e in lst]
            drv.eps = [FakeEndpoint(e, i, drv) for i, e in enumerate(lst)]
            return list(drv.eps)

        eps_mod.getDBusEndpoints = wrapped
        try:
            d = im.client.connect(self.clock, text)
        except Exception as ex:
            self.connect_raised = '%s: %s' % (type(ex).__name__, ex)
            return
        finally:
            eps_mod.getDBusEndpoints = real
        d.addCallbacks(self._on_ready, self._on_failed)

    def _on_ready(self, conn):
        self.fired.append(0)
        self.conn = conn

    def _on_failed(self, f):
        self.fired.append(1)

    def outstanding_ep(self):
        for e in self.eps:
            if e.d is not None:
                return e
        return None

    # -- callbacks handed to the library
    def cb(self, n):
        f = self.cbfun.get(n)
        if f is None:
            def f(obj, reason, n=n):
                if obj is self.conn:
                    owner = []
                else:
                    owner = [next((q for q, p in self.proxies.items() if p is obj), -1)]
                self.ran.append([owner, n, self.reason_id(reason)])
                for a in self.acts.get(n, ()):
                    self.act(a)
            self.cbfun[n] = f
        return f

    def act(self, a):
        """what a re-entrant callback does on the connection it is told about"""
        if a[0] == 0:
            cid = self.issue_call({'objectPath': '/org/freedesktop/DBus', 'methodName': 'ReleaseName',
                                   'interface': 'org.freedesktop.DBus', 'destination': 'org.freedesktop.DBus',
                                   'signature': 's', 'body': ['org.x.Mine']}, a[1])
            self.issued_in_loss.append(cid)
            return
        if a[0] == 3:
            # obtain another proxy from the dying connection (explicit interfaces: it exists at once); keep it alive
            q = self.nreq
            self.nreq += 1
            key = a[1]
            d = self.conn.getRemoteObject('org.x.Svc%d' % (key % 2), '/o/k%d' % key, self.im.iface)
            d.addCallbacks(self._got_proxy, self._no_proxy, callbackArgs=(q,), errbackArgs=(q,))
            if a[2] and q in self.proxies:
                self.proxies[q].notifyOnDisconnect(self.cb(a[2][0]))
                self.regs.append(((q,), a[2][0]))
            return
        owner, n = a[1], a[2]
        target = self.proxies.get(owner[0]) if owner else self.conn
        if target is None:
            return
        key = (tuple(owner), n)
        if a[0] == 1:
            target.notifyOnDisconnect(self.cb(n))
            self.regs.append(key)
        else:
            if key in self.regs:
                self.regs.remove(key)
            try:
                target.cancelNotifyOnDisconnect(self.cb(n))
            except ValueError:          # a well-behaved callback: it does not let the exception escape
                self.raised = True

    def issue_call(self, kw, tmo):
        im = self.im
        if tmo:
            kw['timeout'] = tmo[0]
        serial = im.message.DBusMessage._nextSerial
        before = set(id(dc) for dc in self.clock.getDelayedCalls())
        d = self.conn.callRemote(**kw)
        for dc in self.clock.getDelayedCalls():
            if id(dc) not in before:
                self.timer_of[id(dc)] = serial
                self.keep.append(dc)          # ids stay unique while we hold the objects
        cid = self.next_id
        self.next_id += 1
        self.deferreds[cid] = d
        self.serial_of[cid] = serial
        d.addCallbacks(self.call_ok, self.call_err, callbackArgs=(cid,), errbackArgs=(cid,))
        return cid

    def reason_id(self, f):
        for r, fr in self.reasons.items():
            if f is fr:
                return r
        return -1

    def call_ok(self, v, cid):
        self.done.append([cid, [0, [] if v is None else [c08.canon_val(v)]]])

    def call_err(self, f, cid):
        im = self.im
        if f.check(im.error.RemoteError):
            e = f.value
            vals = getattr(e, 'values', None)
            self.done.append([cid, [1, c08.canon_val(e.errName), c08.canon_val(e.message),
                                    None if vals is None else c08.canon_val(vals)]])
        elif f.check(im.error.TimeOut):
            self.done.append([cid, [3]])
        elif f.check(im.defer.CancelledError):
            self.done.append([cid, [6]])
        else:
            r = self.reason_id(f)
            self.done.append([cid, [4, r] if r >= 0 else [5]])

    # -- one event
    def apply(self, i, e):
        im = self.im
        t = e[0]
        if t == 0 or t == 1:
            ep = self.outstanding_ep()
            if ep is None:
                return
            self.resolve_endpoint(ep, t)
        elif t == 2 or t == 3:
            if self.srv != 'auth':
                return
            scripts = AUTH_OK if t == 2 else AUTH_REFUSED
            for chunk in scripts[(i + len(self.events)) % len(scripts)]:
                self.proto.dataReceived(chunk)
            if any(o.startswith(b'BEGIN') for o in self.proto.transport.out):
                self.srv = 'begun'
        elif t == 4:
            self.apply_calls(i, e[1])
        elif t == 5:
            if self.conn is None:
                return
            q = self.nreq
            self.nreq += 1
            kind, key = e[1], e[2]
            bus, path = 'org.x.Svc%d' % (key % 2), '/o/k%d' % key
            if kind == 0:
                d = self.conn.getRemoteObject(bus, path, im.iface)
            else:
                cid = self.next_id
                self.next_id += 1
                self.intro[im.message.DBusMessage._nextSerial] = (kind == 1)
                d = self.conn.getRemoteObject(bus, path)
            d.addCallbacks(self._got_proxy, self._no_proxy, callbackArgs=(q,), errbackArgs=(q,))
        elif t == 6 or t == 7:
            if self.conn is None:
                return
            owner, n = e[1], e[2]
            if owner:
                target = self.proxies.get(owner[0])
                if target is None:
                    return
            else:
                target = self.conn
            key = (tuple(owner), n)
            if t == 6:
                target.notifyOnDisconnect(self.cb(n))
                self.regs.append(key)
            else:
                if key in self.regs:          # the harness's books do not depend on what the library does
                    self.regs.remove(key)
                try:
                    target.cancelNotifyOnDisconnect(self.cb(n))
                except ValueError:
                    self.raised = True
        elif t == 8:
            d = self.deferreds.get(e[1])
            if d is not None:
                if not d.called:
                    self.cancelled.append(e[1])
                d.cancel()
        else:
            raise ValueError('bad event %r' % (e,))

    def resolve_endpoint(self, ep, t, inside_connect=False):
        im = self.im
        d, ep.d = ep.d, None
        if t == 0:
            # the endpoint fails; with what depends on the transport and the moment (refused, timed out, the host
            # name does not resolve, the attempt was cancelled, a bad port, ...): any failure moves the walk on
            kinds = endpoint_failures(im)
            n = self.fail_count
            self.fail_count += 1
            exc = kinds[(n + ep.idx + len(self.events) + self.s0) % len(kinds)](ep.idx)
            self.fail_kinds.append(type(exc).__name__)
            d.errback(im.failure.Failure(exc))
            # whatever connect()'s own errback leaves in the endpoint's Deferred is dropped here, not logged at exit
            # (not when the endpoint answers before connect() has had a chance to attach its own errback)
            if not inside_connect:
                d.addErrback(lambda f: self.ep_leftover.append(f.type.__name__))
        else:
            p = ep.factory.buildProtocol(None)
            self.proto = p
            p.makeConnection(c08.FakeTransport())
            self.srv = 'auth'
            d.callback(p)

    def foreign_timer(self, dc):
        """with two connections on one reactor: a delayed call the OTHER connection's driver knows about"""
        return any(id(dc) in o.timer_of for o in self.others)

    def run_sync(self):
        """the same history with the leading endpoint results delivered inside connect(factory);
        -> everything the Deferred of connect() fired with, the order of attempts"""
        self.start()
        if self.connect_raised:
            return None, None
        consumed = self.nsync - len(self.sync_queue)
        for i, e in enumerate(self.events):
            if i < consumed:
                continue
            self.raised = False
            try:
                self.apply(i, e)
            except Exception as ex:
                self.faults.append('event %d: %s: %s' % (i, type(ex).__name__, ex))
        return list(self.fired), list(self.attempts)

    def _got_proxy(self, prox, q):
        self.proxies[q] = prox
        self.objdone.append([q, 1])

    def _no_proxy(self, f, q):
        self.objdone.append([q, 0])

    def apply_calls(self, i, ce):
        im = self.im
        t = ce[0]
        if t == 0:
            if self.conn is None:
                return
            kind, tmo, rs = ce[1], ce[2], ce[3]
            kw = {}
            if rs == [0]:
                kw['returnSignature'] = None
            elif rs:
                kw['returnSignature'] = rs[1]
            if kind == 2:
                kw.update(c08.INVALID_CALLS[i % len(c08.INVALID_CALLS)])
            else:
                kw.update(objectPath='/obj', methodName='M%d' % (i % 3), interface='org.x.I',
                          destination='org.x.Dest')
                if i % 2:
                    kw.update(signature='s', body=['arg'])
                if kind == 1:
                    kw['expectReply'] = False
            self.issue_call(kw, tmo)
        elif t == 1 or t == 2:
            serial = ce[1]
            if self.srv != 'begun' or serial > MAXS:      # REPLY_SERIAL is a 32-bit header field
                return
            m = ce[2] if t == 1 else ce[3]
            if (t == 1 and serial in self.intro and m[0] and len(m[1]) == 1 and isinstance(m[1][0], str)
                    and not m[0][0].startswith('(')):
                # the reply to Introspect carries one string: give it the document
                m = [['s'], [GOOD_XML if self.intro[serial] else BAD_XML]]
            self.proto.dataReceived(im.raw(t, serial, None if t == 1 else ce[2], m))
        elif t == 3:
            for dc in self.clock.getDelayedCalls():
                if self.timer_of.get(id(dc)) == ce[1]:
                    dc.reset(0)
                    self.clock.advance(0)
                    break
        elif t == 4:
            if self.proto is None or self.lost:
                return
            fr = im.failure.Failure(im.terror.ConnectionDone('lost %d' % ce[1]))
            self.reasons[ce[1]] = fr
            self.lost = True
            self.srv = 'closed'
            self.regs_at_loss = list(self.regs)
            self.proxies_at_loss = set(self.proxies)
            self.nreq_at_loss = self.nreq
            self.issued_at_loss = self.next_id
            self.in_loss = True
            try:
                self.proto.connectionLost(fr)
            finally:
                self.in_loss = False
            self.issued_after_loss = self.next_id
        else:
            raise ValueError('bad calls event %r' % (ce,))

    def observe(self, marks):
        """the observation for one step, in the shape of the model's (without the loss spec)"""
        f0, d0, r0, o0 = marks
        p = self.proto
        pend = sorted(getattr(p, '_pendingCalls', None) or []) if p is not None else []
        tims = sorted(self.timer_of.get(id(dc), -1) for dc in self.clock.getDelayedCalls()
                      if self.shared_clock is None or id(dc) in self.timer_of or not self.foreign_timer(dc))
        closing = bool(p is not None and not self.lost and p.transport.disconnecting)
        ep = self.outstanding_ep()
        return [self.fired[f0:], sorted(self.done[d0:], key=lambda c: c[0]), pend, tims,
                sorted(self.ran[r0:]), sorted(self.objdone[o0:]), int(self.raised), int(closing),
                [ep.idx] if ep is not None else []]

    def run(self):
        self.start()
        if self.connect_raised:
            return None, []
        init = list(self.fired)
        steps = []
        for i, e in enumerate(self.events):
            marks = (len(self.fired), len(self.done), len(self.ran), len(self.objdone))
            self.raised = False
            try:
                self.apply(i, e)
            except Exception as ex:
                if isinstance(ex, ValueError) and 'bad ' in str(ex):
                    raise
                self.faults.append('event %d: %s: %s' % (i, type(ex).__name__, ex))
            steps.append(self.observe(marks))
        # let virtual time pass: whatever is still armed fires now
        d0 = len(self.done)
        try:
            self.clock.advance(100000)
        except Exception as ex:
            self.faults.append('late: %s: %s' % (type(ex).__name__, ex))
        self.late = sorted(self.done[d0:], key=lambda c: c[0])
        return init, steps


def endpoint_failures(im):
    """what endpoint.connect(factory) errbacks with: ConnectError subclasses and failures that are none"""
    te = im.terror
    return [
        lambda i: te.ConnectionRefusedError('refused %d' % i),
        lambda i: te.DNSLookupError('no such host %d' % i),                  # tcp:host=<name>: an IOError
        lambda i: te.TimeoutError('timed out %d' % i),
        lambda i: te.ConnectingCancelledError(None),
        lambda i: te.NoRouteError('no route %d' % i),
        lambda i: Exception('endpoint %d failed' % i),
        lambda i: te.ConnectError(string='generic %d' % i),
        lambda i: ValueError('port must be 0-65535'),
        lambda i: FileNotFoundError(2, 'No such file or directory'),         # unix:path= of a socket that is not there
        lambda i: te.UnknownHostError('unknown host %d' % i),
    ]


def describe_endpoint(e):
    n = type(e).__name__
    if n == 'UNIXClientEndpoint':
        return ['unix', getattr(e, '_path', None)]
    if n == 'TCP4ClientEndpoint':
        return ['tcp', getattr(e, '_host', None), getattr(e, '_port', None)]
    return [n]


class Impl(c08.Impl):
    def __init__(self):
        c08.Impl.__init__(self)
        from txdbus import interface
        self.iface = interface.DBusInterface('org.x.C09Explicit', interface.Method('m'))
        from twisted.internet import defer
        self.defer = defer


# --------------------------------------------------------------------------
def expected_books(drv):
    """the property text, on the harness's own books: the connection-level callbacks registered at the loss, and the
    proxy-level ones registered once the connection-level callbacks have done what they do"""
    at_loss = drv.regs_at_loss
    conn = [k for k in at_loss if not k[0]]
    prox = [k for k in at_loss if k[0]]
    exist = set(drv.proxies_at_loss)
    nreq = drv.nreq_at_loss
    for (_, n) in conn:
        for a in drv.acts.get(n, ()):
            if a[0] == 3:
                # a proxy created by a connection-level callback is there before the proxies are told
                exist.add(nreq)
                if a[2]:
                    prox.append(((nreq,), a[2][0]))
                nreq += 1
            elif a[0] in (1, 2) and a[1] and a[1][0] in exist:
                key = (tuple(a[1]), a[2])
                if a[0] == 1:
                    prox.append(key)
                elif key in prox:
                    prox.remove(key)
    return conn + prox


def canon_model_step(ms):
    fired, comps, pend, tims, ran, objdone, raised, closing, trying, lspec = ms
    return [fired, comps, sorted(pend), sorted(tims), sorted(canon_run(x) for x in ran),
            sorted(objdone), raised, closing, trying], lspec


def canon_run(x):
    return [list(x[0]), x[1], x[2]]


def same_step(i, m):
    return (i[0] == m[0] and c08.same_completions(i[1], m[1]) and i[2:] == m[2:])


def evaluate(ctx, cases, res):
    im = Impl()
    cases = list(cases)
    two = [c for c in cases if c and c[0] == 'two']
    if two:
        from harness import c09_two
        c09_two.evaluate(ctx, two, res, im)
        cases = [c for c in cases if not (c and c[0] == 'two')]
    again = [c for c in cases if c and c[0] == 're']
    if again:
        from harness import c09_re
        c09_re.evaluate(ctx, again, res, im)
        cases = [c for c in cases if not (c and c[0] == 're')]
    lines = []
    for c in cases:
        kinds = [a[0] for a in c[0]]
        acts = c[3] if len(c) > 3 else []
        for mode in (0, 1, 2):
            lines.append('(9 %d %s %d %s %s)' % (mode, common.dump(kinds), c[1], common.dump(c[2]), common.dump(acts)))
    outs = common.run_model(lines)
    saved = im.message.DBusMessage._nextSerial
    saved_reactor = im.client.reactor
    dist = res.extra.setdefault('input_distribution', {
        'events': 0, 'address_entries': {}, 'spec_outcome': {'pending': 0, 'ready': 0, 'failed': 0},
        'loss_of_ready_with': {'calls': 0, 'timers': 0, 'callbacks': 0, 'explicit_proxy_cb': 0,
                               'introspected_proxy_cb': 0, 'introspection_pending': 0},
        'legacy_differs': 0, 'cases': 0})
    try:
        for k, c in enumerate(cases):
            o, oleg, oleg2 = outs[3 * k], outs[3 * k + 1], outs[3 * k + 2]
            # validation aid: compare the tree under test with a pre-repair model (a tree without the repairs
            # must then show no correspondence disagreement; the oracle is unaffected)
            if os.environ.get('VERIF_C09_MODEL') == 'legacy':          # before D12/D13, passive callbacks only
                o, oleg = oleg, o
            elif os.environ.get('VERIF_C09_MODEL') == 'legacy2':       # before D62/D63
                o, oleg2 = oleg2, o
            if o == [-1]:
                raise RuntimeError('model rejected input %r' % (c,))
            msteps_raw, spec, final_phase, minit, mlate = o
            drv = Driver(im, c)
            iinit, isteps = drv.run()
            nontrivial = any(e[0] == 1 for e in c[2]) and len(c[2]) >= 3
            res.count(c, nontrivial=nontrivial)
            dist['cases'] += 1
            dist['events'] += len(c[2])
            dist['address_entries'][str(len(c[0]))] = dist['address_entries'].get(str(len(c[0])), 0) + 1
            dist['spec_outcome'][{(): 'pending', (0,): 'ready', (1,): 'failed'}[tuple(spec)]] += 1
            if oleg[0] != msteps_raw or oleg[2] != final_phase:
                dist['legacy_differs'] += 1
            if oleg2[0] != msteps_raw or oleg2[4] != mlate:
                dist['legacy2_differs'] = dist.get('legacy2_differs', 0) + 1
            if len(c) > 3 and c[3]:
                dist['with_acting_callbacks'] = dist.get('with_acting_callbacks', 0) + 1
            if iinit is None:
                res.violate(c, 'connect() raised instead of returning a Deferred: %s' % drv.connect_raised,
                            'connect-raised')
                continue
            # address parsing against the table
            expect = [list(ADDR_TEXT[(a[0], a[1])][1]) for a in c[0] if ADDR_TEXT[(a[0], a[1])][1] is not None]
            if drv.parsed != expect:
                res.violate(c, 'getDBusEndpoints produced %r, the address list means %r' % (drv.parsed, expect),
                            'address-parse')
            msteps, lspecs = [], []
            for ms in msteps_raw:
                a, b = canon_model_step(ms)
                msteps.append(a)
                lspecs.append(b)
            # ---- correspondence
            ok = (iinit == minit and len(isteps) == len(msteps)
                  and all(same_step(a, b) for a, b in zip(isteps, msteps)) and not drv.faults
                  and c08.same_completions(drv.late, sorted(mlate, key=lambda x: x[0])))
            if not ok:
                res.disagree(c, [iinit, isteps, drv.late, drv.faults], [minit, msteps, mlate])
            # ---- oracle: implementation against Spec/ConnectSpec.v
            if drv.faults:
                res.violate(c, 'an exception escaped the library: %r' % (drv.faults,), 'exception-escaped')
            fired_all = iinit + [x for st in isteps for x in st[0]]
            if fired_all != list(spec):
                if not fired_all:
                    why, sig = ('the Deferred of connect() never fired; the history demands %s%s'
                                % ('the connection' if spec == [0] else 'a failure',
                                   ' (endpoints had failed with %s)' % ', '.join(drv.fail_kinds) if drv.fail_kinds else '')
                                ), 'connect-deferred-never-fired'
                elif len(fired_all) > 1:
                    why, sig = 'the Deferred of connect() fired more than once', 'connect-deferred-fired-twice'
                elif not spec:
                    why, sig = 'the Deferred of connect() fired before connecting concluded', 'connect-deferred-early'
                else:
                    why, sig = ('the Deferred of connect() fired with %s where the history demands %s'
                                % (fired_all, spec)), 'connect-deferred-wrong-result'
                res.violate(c, why, sig)
            if drv.attempts != list(range(len(drv.attempts))):
                res.violate(c, 'endpoints were tried in the order %r' % (drv.attempts,), 'endpoint-order')
            if c[2] and c[2][0][0] in (0, 1) and k % 3 == 0:
                # endpoints that answer synchronously (inside connect(factory)) must lead to the same result
                sfired, sattempts = Driver(im, c, sync=True).run_sync()
                dist['sync_endpoint_runs'] = dist.get('sync_endpoint_runs', 0) + 1
                if sfired != list(spec) or sattempts != drv.attempts:
                    res.violate(c, 'with endpoints answering inside connect(factory) the Deferred of connect() fired %r '
                                   '(attempts %r); the history demands %r (attempts %r)'
                                % (sfired, sattempts, list(spec), drv.attempts), 'connect-sync-endpoint-differs')
            loss_at = None
            for j, (ist, ls) in enumerate(zip(isteps, lspecs)):
                if ls[0] == 1:
                    loss_at = j
                    _, fails, runs, objfails, issued_b, issued_a = ls
                    runs = sorted(canon_run(x) for x in runs)
                    # every call a callback issued while the loss was handled must have failed with the reason too
                    # (at the 2^32 serial boundary such a call cannot be sent and fails at once instead)
                    reason = c[2][j][1][1]
                    during = drv.issued_in_loss
                    got = {x[0]: x[1] for x in ist[1]}
                    fails = list(fails) + [[i, got[i] if got.get(i) == [5] and c[1] + 16 > MAXS else [4, reason]]
                                           for i in during]
                    d2x = dist.setdefault('loss_reentrant', {'calls_issued_by_callbacks': 0, 'with_deadline': 0,
                                                             'register_or_cancel': 0})
                    acted = [a for r_ in ist[4] for a in drv.acts.get(r_[1], ())]
                    d2x['calls_issued_by_callbacks'] += bool(during)
                    d2x['with_deadline'] += any(a[0] == 0 and a[1] and a[1][0] for a in acted)
                    d2x['register_or_cancel'] += any(a[0] in (1, 2) for a in acted)
                    left = [i for i in during if i not in got]
                    if left:
                        res.violate(c, 'calls %r issued by disconnect callbacks while the loss was handled were neither '
                                       'failed with the loss reason nor completed otherwise: still pending %r, timers %r'
                                    % (left, ist[2], ist[3]), 'loss-reentrant-call-left-pending')
                    d2 = dist['loss_of_ready_with']
                    d2['calls'] += bool(fails)
                    d2['timers'] += bool(j and isteps[j - 1][3])
                    d2['callbacks'] += bool(runs)
                    d2['introspection_pending'] += bool(objfails)
                    kinds_of = {}
                    q = 0
                    for e in c[2][:j]:
                        if e[0] == 5:
                            kinds_of[q] = e[1]
                            q += 1
                    d2['explicit_proxy_cb'] += any(r[0] and kinds_of.get(r[0][0]) == 0 for r in runs)
                    d2['introspected_proxy_cb'] += any(r[0] and kinds_of.get(r[0][0]) == 1 for r in runs)
                    if not c08.same_completions(ist[1], sorted(fails, key=lambda x: x[0])):
                        res.violate(c, 'at the loss the outstanding calls must each fail once with the reason: '
                                       'expected %r, got %r' % (fails, ist[1]), 'loss-calls-not-failed-once')
                    if [x for x in ist[5] if not x[1]] != sorted(objfails):
                        res.violate(c, 'at the loss every pending getRemoteObject must fail: expected %r, got %r'
                                    % (objfails, ist[5]), 'loss-calls-not-failed-once')
                    cancelled_serials = [drv.serial_of[i] for i in drv.cancelled]
                    if (ist[2] or ist[3]) and not left:
                        if ist[3] and all(t_ in cancelled_serials for t_ in ist[3]) and not ist[2]:
                            res.violate(c, 'after the loss the timeout of a call whose Deferred the caller had cancelled is '
                                           'still armed: timers %r (cancelled calls had the serials %r)'
                                        % (ist[3], cancelled_serials), 'loss-cancelled-call-timer-left')
                        else:
                            res.violate(c, 'after the loss _pendingCalls=%r timers=%r' % (ist[2], ist[3]),
                                        'loss-timer-or-entry-left')
                    if ist[4] != runs:
                        missing = [r for r in runs if r not in ist[4]]
                        sig = 'loss-callback-not-run-once'
                        if missing and all(r[0] for r in missing):
                            sig = 'loss-proxy-callback-not-run'
                        res.violate(c, 'at the loss every registered disconnect callback must run once: expected %r, '
                                       'got %r' % (runs, ist[4]), sig)
                    books = sorted([list(o_), n, c[2][j][1][1]] for (o_, n) in expected_books(drv))
                    if books != runs:
                        raise RuntimeError('the specification expects the callbacks %r, the harness registered %r: %r'
                                           % (runs, books, c))
                    if ist[0]:
                        res.violate(c, 'the Deferred of connect() fired again at the loss', 'connect-deferred-fired-twice')
            if loss_at is not None:
                issued = drv.issued_after_loss
                old_late = [x for x in drv.late if x[0] < issued]
                if old_late:
                    res.violate(c, 'after the loss, with virtual time advanced past every deadline, calls issued before '
                                   'or during the loss handling completed: %r' % (old_late,), 'loss-late-timeout-fired')
                for j in range(loss_at + 1, len(isteps)):
                    ist = isteps[j]
                    old = [x for x in ist[1] if x[0] < issued]
                    if ist[0] or ist[4] or old or ist[5] and c[2][j][0] != 5:
                        res.violate(c, 'after the loss something fired at event %d: connect %r, callbacks %r, '
                                       'completions %r, getRemoteObject %r' % (j, ist[0], ist[4], old, ist[5]),
                                    'fired-after-loss')
            if len(res.samples) < 5 and nontrivial and (k % 997 == 0):
                res.sample(c)
    finally:
        im.message.DBusMessage._nextSerial = saved
        im.client.reactor = saved_reactor


# --------------------------------------------------------------------------
# generators
def lost(r=1):
    return [4, [4, r]]


def ret(serial, m):
    return [4, [1, serial, m]]


def err(serial, name, m):
    return [4, [2, serial, name, m]]


def call(tmo, kind=0, rs=None):
    return [4, [0, kind, [tmo] if tmo is not None else [], rs or []]]


def timer(serial):
    return [4, [3, serial]]


class Gen:
    def __init__(self, ctx):
        self.rng = ctx.rng
        self.ctx = ctx

    def addr_entry(self, kind):
        return [kind, self.rng.choice(VARIANTS[kind])]

    def hello_ok(self, s0):
        return ret(s0, self.rng.choice(HELLO_OK) if self.rng.random() < 0.3 else HELLO_OK[0])

    def hello_err(self, s0):
        n, m = self.rng.choice(HELLO_ERR)
        return err(s0, n, m)

    def with_loss_everywhere(self, addr, s0, evs, also_plain=True):
        if also_plain:
            yield [addr, s0, evs]
        for pos in range(len(evs) + 1):
            yield [addr, s0, evs[:pos] + [lost(self.rng.randrange(1, 4))] + evs[pos:]]

    # A. every address list of <= maxlen entries over the four kinds x every reachability subset x what happens on
    #    the first reachable one, the loss at every point
    def connecting(self, maxlen):
        for n in range(0, maxlen + 1):
            for kinds in itertools.product(range(4), repeat=n):
                usable = [k for k in kinds if k != 3]
                for reach in itertools.product((0, 1), repeat=len(usable)):
                    addr = [self.addr_entry(k) for k in kinds]
                    s0 = self.rng.choice([1, 2, 9, 300, 70000])
                    walk = []
                    for r in reach:
                        walk.append([1] if r else [0])
                        if r:
                            break
                    tails = [[], [[2]], [[3]], [[2], self.hello_ok(s0)], [[2], self.hello_err(s0)],
                             [[3], [2]], [[2], ret(s0 + 1, HELLO_OK[0]), timer(s0), self.hello_ok(s0)]]
                    if 1 not in reach:
                        tails = [[], [[2], self.hello_ok(s0)]]
                    for tail in tails:
                        yield from self.with_loss_everywhere(addr, s0, walk + tail)

    # B. an established connection with work in flight, lost at every point
    def established(self, nactions):
        rng = self.rng
        addr = [self.addr_entry(rng.choice([0, 1, 2]))]
        s0 = rng.choice([1, 5, 40, 1000])
        evs = [[1], [2], self.hello_ok(s0)]
        serial = s0 + 1
        calls = []          # serials of user calls
        intros = []
        nreq = 0
        cbs = 0
        for _ in range(nactions):
            r = rng.random()
            if r < 0.22 and len(calls) < 3:
                kind = rng.choice([0, 0, 0, 0, 0, 1, 2])
                tmo = rng.choice([None, None, 2, 5, 30, 0])
                evs.append(call(tmo, kind, rng.choice([None, None, [1, 'i'], [0]])))
                if kind != 2:
                    if kind == 0:
                        calls.append(serial)
                    serial += 1
            elif r < 0.36:
                k = rng.choice([0, 0, 1, 1, 1, 2])
                evs.append([5, k, rng.choice([0, 0, 1, 2])])
                if k:
                    intros.append(serial)
                    serial += 1
                nreq += 1
            elif r < 0.60:
                owner = [] if (not nreq or rng.random() < 0.4) else [rng.randrange(0, nreq + (rng.random() < 0.1))]
                evs.append([6, owner, rng.choice([1, 2, 3]) if rng.random() < 0.5 else 10 + cbs])
                cbs += 1
            elif r < 0.68:
                owner = [] if (not nreq or rng.random() < 0.4) else [rng.randrange(0, nreq)]
                evs.append([7, owner, rng.choice([1, 2, 3, 10 + rng.randrange(0, cbs + 1)])])
            elif r < 0.80 and intros:
                s = rng.choice(intros)
                evs.append(ret(s, rng.choice([[['s'], ['x']]] * 4 + [[['i'], [7]], [[], []]])))
            elif r < 0.90 and (calls or intros):
                s = rng.choice(calls + intros)
                if rng.random() < 0.6:
                    evs.append(ret(s, rng.choice(c08.REPLIES)))
                else:
                    evs.append(err(s, rng.choice(c08.ERRNAMES), rng.choice(c08.ERRBODIES)))
            elif calls and rng.random() < 0.5:
                evs.append([8, rng.randrange(1, 6)])
            elif calls:
                evs.append(timer(rng.choice(calls)))
            else:
                evs.append([6, [], 10 + cbs])
                cbs += 1
        return addr, s0, evs

    def established_family(self, count, nactions):
        for _ in range(count):
            addr, s0, evs = self.established(self.rng.randrange(2, nactions + 1))
            # afterwards: the things that could still (wrongly) fire
            post = []
            for _ in range(self.rng.randrange(0, 4)):
                post.append(self.rng.choice([timer(s0 + 1), timer(s0 + 2), ret(s0 + 1, c08.REPLIES[2]), lost(3),
                                             [6, [], 99], call(4), [5, 0, 0], [5, 1, 0], [2], [1], [0]]))
            for pos in range(3, len(evs) + 1):
                yield [addr, s0, evs[:pos] + [lost(self.rng.randrange(1, 4))] + evs[pos:] + post]

    # B2. k <= 3 calls, each with or without a deadline, in flight together with both kinds of proxy, a pending
    #     introspection and callbacks everywhere; some of the work already finished; the loss at every position
    def in_flight(self, full):
        rng = self.rng
        for k in range(0, 4):
            for deadlines in itertools.product((0, 1), repeat=k):
                for finished in ([()] + [(j, how) for j in range(k) for how in 'RET']) if full else \
                        [(), (0, 'R'), (k - 1, 'T')][:1 + 2 * (k > 0)]:
                    addr = [self.addr_entry(rng.choice([0, 1, 2]))]
                    s0 = rng.choice([1, 5, 40, 1000])
                    evs = [[1], [2], self.hello_ok(s0)]
                    serial = s0 + 1
                    evs += [[5, 0, 1], [6, [0], 21], [5, 1, 2]]                    # explicit proxy 0; introspection 1
                    intro1 = serial
                    serial += 1
                    calls = []
                    for dl in deadlines:
                        evs.append(call(rng.choice([2, 5, 30]) if dl else None))
                        calls.append(serial)
                        serial += 1
                    evs += [ret(intro1, [['s'], ['x']]), [6, [1], 22], [6, [1], 23], [7, [1], 23],
                            [5, 1, 2], [6, [], 31], [6, [], 32], [6, [], 31], [7, [], 31]]   # introspection 2 stays pending
                    serial += 1
                    if finished:
                        j, how = finished
                        if how == 'R':
                            evs.append(ret(calls[j], rng.choice(c08.REPLIES)))
                        elif how == 'E':
                            evs.append(err(calls[j], rng.choice(c08.ERRNAMES), rng.choice(c08.ERRBODIES)))
                        elif deadlines[j]:
                            evs.append(timer(calls[j]))
                    post = [timer(c) for c in calls] + [ret(c, c08.REPLIES[2]) for c in calls[:1]] + \
                           [ret(serial - 1, [['s'], ['x']]), [6, [], 99], [6, [0], 98], lost(3)]
                    for pos in range(3, len(evs) + 1):
                        yield [addr, s0, evs[:pos] + [lost(rng.randrange(1, 4))] + evs[pos:] + post]

    # R. disconnect callbacks that act on the connection while the loss is handled.  Callbacks 40, 41 are only ever
    #    registered on the connection, 50 only on proxy 0, 51 only on proxy 1 (so that no proxy-level callback touches
    #    another proxy: see ASSUMPTIONS); 7, 8 (connection), 21 (proxy 0), 22 (proxy 1) and everything registered by
    #    an action are passive.  No callback registers itself or its registrar (the unrepaired loop would not return).
    CONN_ACTIONS = [[0, [5]], [0, []], [0, [0]], [1, [], 60], [1, [], 7], [2, [], 7], [2, [], 8], [2, [], 40], [2, [], 41],
                    [2, [], 99], [1, [0], 61], [1, [1], 61], [2, [0], 21], [2, [1], 22], [2, [0], 50], [1, [5], 61],
                    [3, 4, []], [3, 5, [66]], [1, [2], 67]]
    P0_ACTIONS = [[0, [5]], [0, []], [1, [], 62], [2, [], 7], [2, [0], 50], [2, [0], 21], [1, [0], 63], [2, [0], 98],
                  [3, 6, []], [3, 7, [68]]]
    P1_ACTIONS = [[0, [3]], [0, []], [1, [], 64], [2, [1], 51], [2, [1], 22], [1, [1], 65], [3, 8, [69]]]

    def reentrant_case(self, k, deadlines, conn_regs, acts, post_extra=()):
        rng = self.rng
        addr = [self.addr_entry(rng.choice([0, 1, 2]))]
        s0 = rng.choice([1, 5, 40, 1000])
        evs = [[1], [2], self.hello_ok(s0), [5, 0, 1], [5, 1, 2], ret(s0 + 1, [['s'], ['x']])]
        serial = s0 + 2
        for j in range(k):
            evs.append(call(rng.choice([2, 5, 30]) if deadlines[j] else None))
            serial += 1
        evs += [[6, [0], 21], [6, [0], 50], [6, [0], 21], [6, [1], 51], [6, [1], 22]]
        evs += [[6, [], n] for n in conn_regs]
        evs.append(lost(rng.randrange(1, 4)))
        evs += [timer(x) for x in range(s0 + 2, serial + 4)] + list(post_extra)
        return [addr, s0, evs, [[n, a] for n, a in sorted(acts.items()) if a]]

    def reentrant(self, full):
        rng = self.rng
        orders = [[40, 7, 8], [7, 40, 8], [7, 8, 40]]
        # one acting callback, one action, every position among the connection-level callbacks
        for a in self.CONN_ACTIONS:
            for order in orders:
                for k in (0, 1, 2):
                    yield self.reentrant_case(k, [1, 0][:k], order, {40: [a]})
        for a in self.P0_ACTIONS:
            for k in (0, 2):
                yield self.reentrant_case(k, [1, 0][:k], [7, 8], {50: [a]})
        for a in self.P1_ACTIONS:
            yield self.reentrant_case(1, [1], [7], {51: [a]})
        # the seeded shape and its relatives: every acting callback issues calls with and without deadline
        for order in ([40], [40, 41], [7, 40, 41, 8]):
            for post in ((), (call(4), [6, [], 70], lost(3))):
                yield self.reentrant_case(1, [1], order, {40: [[0, [5]]], 41: [[0, []], [0, [9]]],
                                                          50: [[0, [7]]], 51: [[0, []]]}, post)
        # proxies created while the loss is handled: by a proxy-level callback (the other proxy must still be told, the
        # pending calls failed), by a connection-level callback (the new proxy is told too), by both
        for acts in ({50: [[3, 6, [68]]]}, {51: [[3, 8, []]]}, {40: [[3, 5, [66]]]},
                     {40: [[3, 5, [66]], [1, [2], 67], [0, [5]]], 50: [[3, 6, [68]], [0, []]], 51: [[3, 8, [69]]]}):
            for k in (0, 1, 2):
                yield self.reentrant_case(k, [1, 0][:k], [7, 40], acts, ([6, [2], 75], [5, 0, 3], lost(3)))
        # two acting callbacks, random action lists
        for _ in range(self.ctx.n(600, 12000)):
            acts = {}
            order = [7, 8]
            for n in rng.sample([40, 41], rng.randrange(1, 3)):
                acts[n] = [rng.choice(self.CONN_ACTIONS) for _ in range(rng.randrange(1, 4))]
                order.insert(rng.randrange(0, len(order) + 1), n)
            if rng.random() < 0.4:
                order.insert(rng.randrange(0, len(order) + 1), rng.choice([40, 41, 7]))   # registered twice
            if rng.random() < 0.5:
                acts[50] = [rng.choice(self.P0_ACTIONS) for _ in range(rng.randrange(1, 3))]
            if rng.random() < 0.3:
                acts[51] = [rng.choice(self.P1_ACTIONS) for _ in range(rng.randrange(1, 3))]
            k = rng.randrange(0, 4)
            post = [rng.choice([call(4), call(None), [6, [], 70], [6, [0], 71], lost(3), [5, 0, 3], [7, [], 7]])
                    for _ in range(rng.randrange(0, 3))]
            yield self.reentrant_case(k, [rng.randrange(0, 2) for _ in range(k)], order, acts, post)

    # P. what "registered and not cancelled" means, owner by owner: every sequence of <= maxlen register / cancel
    #    requests over two callbacks on the connection, on an explicit proxy, on an introspected proxy (cancel down to
    #    none left, register again, cancel what is not there, the same callback twice ...), then the loss
    def registration_orders(self, maxlen):
        rng = self.rng
        ops = [(6, 81), (6, 82), (7, 81), (7, 82)]
        for kind in ('connection', 'explicit', 'introspected'):
            for n in range(0, maxlen + 1):
                for seq in itertools.product(ops, repeat=n):
                    addr = [self.addr_entry(rng.choice([0, 1, 2]))]
                    s0 = rng.choice([1, 5, 40, 1000])
                    evs = [[1], [2], self.hello_ok(s0)]
                    if kind == 'connection':
                        owner = []
                        evs += [[5, 0, 3], [6, [0], 90]]
                    else:
                        owner = [0]
                        evs += [[5, 0, 1]] if kind == 'explicit' else [[5, 1, 2], ret(s0 + 1, [['s'], ['x']])]
                        evs += [[5, 0, 3], [6, [1], 90], [6, [], 91]]      # a second proxy and the connection: controls
                    evs += [[t, owner, cb] for t, cb in seq]
                    evs.append(lost(rng.randrange(1, 4)))
                    yield [addr, s0, evs]

    # K. the caller cancels the Deferred of a call: k <= 2 calls, each with or without deadline, optionally one of
    #    {its reply, its error reply, its expiry} somewhere; the cancellation of either call at every position after the
    #    call, twice, of Deferreds that do not exist; the loss at every position after the cancellation and at the end;
    #    afterwards every serial's timer ticks and late replies arrive, and virtual time runs on
    def cancellations(self, full):
        rng = self.rng
        for k in (1, 2):
            for deadlines in itertools.product((0, 1), repeat=k):
                for extra in [None] + [(j, how) for j in range(k) for how in 'RET']:
                    s0 = rng.choice([1, 5, 40, 1000])
                    base = [[1], [2], self.hello_ok(s0), [6, [], 31]]
                    ser = [s0 + 1 + j for j in range(k)]
                    base += [call(rng.choice([2, 5, 30]) if deadlines[j] else None) for j in range(k)]
                    first = len(base) - k           # position of the first call
                    if extra:
                        j, how = extra
                        if how == 'T' and not deadlines[j]:
                            continue
                        base.append(ret(ser[j], rng.choice(c08.REPLIES)) if how == 'R' else
                                    err(ser[j], rng.choice(c08.ERRNAMES), rng.choice(c08.ERRBODIES)) if how == 'E' else
                                    timer(ser[j]))
                    post = [timer(x) for x in ser] + [ret(ser[0], c08.REPLIES[2]), [8, 1], call(3), [8, k + 1]]
                    for j in range(k):
                        cid = 1 + j
                        for pos in range(first + j + 1, len(base) + 1):
                            evs = base[:pos] + [[8, cid]] + base[pos:]
                            addr = [self.addr_entry(rng.choice([0, 1, 2]))]
                            yield [addr, s0, evs + [lost(rng.randrange(1, 4))] + post]
                            if full or (pos + j) % 2 == 0:
                                for lp in range(pos + 1, len(evs)):
                                    yield [addr, s0, evs[:lp] + [lost(rng.randrange(1, 4))] + evs[lp:] + post]
                            yield [addr, s0, evs[:pos + 1] + [[8, cid], [8, 9], [8, 0]] + evs[pos + 1:] +
                                   [lost(rng.randrange(1, 4))] + post]

    # C. fixed scenarios: the witnesses of D12 / D13 and the boundary of the serial counter
    def scenarios(self):
        a1 = [[0, 0]]
        a2 = [[0, 1], [3, 0], [1, 0]]
        for addr in (a1, a2):
            for s0 in (1, 77):
                ok = [[1], [2], ret(s0, HELLO_OK[0])]
                yield [addr, s0, [[1], lost()]]
                yield [addr, s0, [[1], [2], lost()]]
                yield [addr, s0, [[1], [3], lost()]]
                yield [addr, s0, [[0], [1], [3], lost()]]
                yield [addr, s0, ok + [[5, 0, 1], [6, [0], 7], lost(2)]]
                yield [addr, s0, ok + [[5, 1, 1], ret(s0 + 1, [['s'], ['x']]), [6, [0], 7],
                                       [5, 1, 1], ret(s0 + 2, [['s'], ['x']]), [6, [1], 8], lost(2)]]
                yield [addr, s0, ok + [[5, 1, 1], [5, 2, 1], ret(s0 + 2, [['s'], ['x']]), call(5), call(None),
                                       [6, [], 1], [6, [], 1], [7, [], 1], [7, [], 2], [7, [0], 1], lost(3),
                                       timer(s0 + 3), [6, [], 4], call(3), timer(s0 + 5), lost(1)]]
                yield [addr, s0, [[1], [2], ret(s0, [[], []]), call(5), [6, [], 1], lost(2)]]
        for s0 in (MAXS - 1, MAXS, MAXS + 1):
            evs = [[1], [2], ret(s0, HELLO_OK[0]), call(5), call(None), [5, 1, 0]]
            yield from self.with_loss_everywhere(a1, s0, evs)

    # D. arbitrary event sequences (most events do not apply in the phase they arrive in)
    def random_history(self):
        rng = self.rng
        n = rng.randrange(0, 4)
        addr = [self.addr_entry(rng.choice([0, 1, 2, 3])) for _ in range(n)]
        s0 = rng.choice([1, 3, 50, 65535, MAXS - 2])
        evs = []
        serials = list(range(s0, s0 + 6))
        for _ in range(rng.randrange(1, 16)):
            r = rng.random()
            if r < 0.12:
                evs.append([0])
            elif r < 0.27:
                evs.append([1])
            elif r < 0.40:
                evs.append([2])
            elif r < 0.45:
                evs.append([3])
            elif r < 0.58:
                evs.append(ret(rng.choice(serials), rng.choice(HELLO_OK + c08.REPLIES[:6])))
            elif r < 0.63:
                evs.append(err(rng.choice(serials), rng.choice(c08.ERRNAMES), rng.choice(c08.ERRBODIES)))
            elif r < 0.72:
                evs.append(call(rng.choice([None, 3, 0]), rng.choice([0, 0, 0, 1, 2])))
            elif r < 0.76:
                evs.append(timer(rng.choice(serials)))
            elif r < 0.84:
                evs.append(lost(rng.randrange(1, 4)))
            elif r < 0.90:
                evs.append([5, rng.choice([0, 1, 2]), rng.choice([0, 1])])
            elif r < 0.97:
                evs.append([6, rng.choice([[], [0], [1]]), rng.choice([1, 2])])
            else:
                evs.append([7, rng.choice([[], [0], [1]]), rng.choice([1, 2])])
        return [addr, s0, evs]


def gen_cases(ctx):
    g = Gen(ctx)
    yield from g.scenarios()
    yield from g.connecting(ctx.n(3, 3))
    yield from g.registration_orders(ctx.n(4, 5))
    from harness import c09_two
    yield from c09_two.gen_cases(ctx, g)
    from harness import c09_re
    yield from c09_re.gen_cases(ctx, g)
    yield from g.cancellations(not ctx.quick)
    yield from g.reentrant(not ctx.quick)
    yield from g.in_flight(not ctx.quick)
    yield from g.established_family(ctx.n(500, 12000), ctx.n(10, 14))
    for _ in range(ctx.n(3000, 100000)):
        yield g.random_history()


def raising_callback_observation():
    """Outside the quantifier of C09 (callbacks are passive observers): a connection-level disconnect callback that
    raises.  Recorded in the evidence only; never decides the exit status."""
    try:
        im = Impl()
        saved, saved_reactor = im.message.DBusMessage._nextSerial, im.client.reactor
        try:
            drv = Driver(im, [[[0, 0]], 5, []])
            drv.start()
            for i, e in enumerate([[1], [2], ret(5, HELLO_OK[0])]):
                drv.apply(i, e)
            conn = drv.conn
            got = []
            conn.notifyOnDisconnect(lambda c, r: (_ for _ in ()).throw(RuntimeError('boom')))
            conn.notifyOnDisconnect(lambda c, r: got.append('second callback'))
            conn.callRemote('/o', 'm', timeout=5).addErrback(lambda f: got.append('call failed'))
            try:
                conn.connectionLost(im.failure.Failure(im.terror.ConnectionDone('x')))
                raised = None
            except Exception as ex:
                raised = '%s: %s' % (type(ex).__name__, ex)
            return {'scenario': 'two connection-level callbacks, the first raises; one call with a deadline pending; loss',
                    'connectionLost_raised': raised, 'ran_afterwards': got,
                    'timers_left': len(drv.clock.getDelayedCalls()),
                    'note': 'the exception leaves connectionLost: later callbacks do not run, the pending call is not '
                            'failed and its timer stays armed (it ends the call with TimeOut later)'}
        finally:
            im.message.DBusMessage._nextSerial, im.client.reactor = saved, saved_reactor
    except Exception as ex:
        return {'error': repr(ex)}


def run(ctx, res):
    res.extra['outside_scope_observation_raising_callback'] = raising_callback_observation()
    res.rule = ('histories of one connect(): [address entries, first serial, events].  (A) exhaustive: every address '
                'list of <= 3 entries over {unix, tcp, nonce-tcp, other transport} x every reachability subset x {nothing '
                'more, auth ok, auth refused, auth ok + Hello reply, auth ok + Hello error, refused then a late OK, Hello '
                'after an unsolicited reply and a timer tick} with the loss inserted at every position and without loss; '
                '(B) established connections: random programs of <= %d actions (<= 3 calls with and without deadlines, '
                'explicit and introspected proxies, callbacks registered/cancelled on connection and proxies, replies, '
                'error replies, expiries) with the loss inserted at every position after Hello, followed by up to 3 late '
                'events; (P) every sequence of <= %d notifyOnDisconnect / cancelNotifyOnDisconnect requests over two '
                'callbacks on the connection, an explicit proxy, an introspected proxy, then the loss; '
                '(T) two connections alive in one process (harness/c09_two.py): each ready with 1-2 / 0-2 calls in '
                'flight, callbacks and a proxy; replies and error replies arriving on one connection with a serial '
                'pending on the other, expiries, the loss of either, then the genuine replies; '
                '(N) 2-4 connect() calls in one process on one reactor (harness/c09_re.py), nothing of txdbus wrapped: the '
                'same list of 1-3 usable entries connected to twice with every pair of reachability subsets, and random '
                'programs over one or two address lists; each round ends ready-and-lost / ready with work in flight and '
                'lost / ready and left alive / refused / Hello error / lost during authentication / lost before the '
                'Hello reply / nothing reachable; '
                '(K) the caller cancels the Deferred of a call: 1-2 calls with and without deadline, optionally a reply / '
                'error reply / expiry, the cancellation at every later position (also repeated, and of Deferreds that do '
                'not exist), the loss at every position after it; (R) acting disconnect callbacks: each of 19 connection-level actions (call with/without '
                'deadline, register/cancel on the connection or a proxy, create a proxy with or without a callback on it, cancel itself / a '
                'later / an absent callback) x 3 '
                'positions of the acting callback x 0-2 calls in flight, the same for callbacks on either proxy, the '
                'shape "every acting callback issues calls", and random programs for 1-4 acting callbacks; virtual time '
                'is advanced past every timeout at the end of every case; '
                '(C) fixed scenarios incl. the serial boundary 2^32; (D) arbitrary event sequences of <= 15 '
                'events.  Address text variants, serials and reply shapes inside the families come from the seeded PRNG.  '
                'non-trivial = an endpoint connects and the history has >= 3 events; distinct by hash of the case'
                % (ctx.n(10, 14), ctx.n(4, 5)))
    block = []
    for c in gen_cases(ctx):
        block.append(c)
        if len(block) >= 10000:
            evaluate(ctx, block, res)
            block = []
    if block:
        evaluate(ctx, block, res)
    d = res.extra.get('input_distribution', {})
    if d.get('cases'):
        res.extra['legacy_variants_distinguished'] = '%d of %d cases separate the model before D12/D13 from the current ' \
            'one, %d the model before D62/D63' % (d['legacy_differs'], d['cases'], d.get('legacy2_differs', 0))
    res.exhaustive = True
    res.extra['exhaustive_scope'] = ('family A of the rule: all address lists of <= 3 entries x reachability subsets x '
                                     '7 continuations x every loss position')
