"""Hand-written encoder for a small family of DBus messages, independent of the tree under
test (used by harness/c04.py to play the sending peer, in either byte order).

A message description is [le, mtype, flags, serial, fields, sig, vals] with
fields = [[code, type, value], ...] (type one of 'o','s','u','g') and sig a concatenation of
'y','u','s','o','g','ay','as'."""
import struct


class W:
    def __init__(self, le):
        self.b = bytearray()
        self.e = '<' if le else '>'

    def pad(self, n):
        while len(self.b) % n:
            self.b.append(0)

    def y(self, v):
        self.b.append(v)

    def u(self, v):
        self.pad(4)
        self.b += struct.pack(self.e + 'I', v)

    def s(self, v):
        d = v.encode('utf-8') if isinstance(v, str) else bytes(v)
        self.u(len(d))
        self.b += d + b'\0'

    def g(self, v):
        d = v.encode('ascii')
        self.b.append(len(d))
        self.b += d + b'\0'

    def value(self, t, v):
        if t == 'y':
            self.y(v)
        elif t == 'u':
            self.u(v)
        elif t in ('s', 'o'):
            self.s(v)
        elif t == 'g':
            self.g(v)
        elif t == 'ay':
            self.u(len(v))
            self.b += bytes(v)
        elif t == 'as':
            self.u(0)
            at = len(self.b)
            for x in v:
                self.s(x)
            self.b[at - 4:at] = struct.pack(self.e + 'I', len(self.b) - at)
        else:
            raise ValueError(t)


def split_sig(sig):
    out = []
    i = 0
    while i < len(sig):
        if sig[i] == 'a':
            out.append(sig[i:i + 2])
            i += 2
        else:
            out.append(sig[i])
            i += 1
    return out


def build(le, mtype, flags, serial, fields, sig, vals):
    body = W(le)
    for t, v in zip(split_sig(sig), vals):
        body.value(t, v)
    w = W(le)
    w.y(ord('l') if le else ord('B'))
    w.y(mtype)
    w.y(flags)
    w.y(1)
    w.u(len(body.b))
    w.u(serial)
    w.u(0)
    for code, t, v in fields:
        w.pad(8)
        w.y(code)
        w.g(t)
        w.value(t, v)
    w.b[12:16] = struct.pack(w.e + 'I', len(w.b) - 16)
    w.pad(8)
    return bytes(w.b) + bytes(body.b)


def expected_length(raw):
    """total length announced by the first 16 bytes (DBus specification), independent of txdbus"""
    e = '<' if raw[0:1] == b'l' else '>'
    body = struct.unpack(e + 'I', raw[4:8])[0]
    harr = struct.unpack(e + 'I', raw[12:16])[0]
    return (16 + harr + 7) // 8 * 8 + body


FIELD_NAMES = {1: 'path', 2: 'interface', 3: 'member', 4: 'error_name', 5: 'reply_serial',
               6: 'destination', 7: 'sender', 8: 'signature'}


def summary(mtype, serial, fields, sig, vals):
    """what the receiving callback must see: [type, serial, {header attributes}, body]"""
    attrs = {FIELD_NAMES[c]: v for c, _, v in fields}
    return [mtype, serial,
            [[k, attrs[k]] for k in sorted(attrs)],
            [canon(v) for v in vals] if sig else None]


def canon(v):
    if isinstance(v, (bytes, bytearray)):
        return list(v)
    if isinstance(v, (list, tuple)):
        return [canon(x) for x in v]
    if isinstance(v, bool):
        return int(v)
    return v
