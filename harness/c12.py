"""C12 correspondence: txdbus.router (Rule.add / Rule.match, MessageRouter.addMatch / delMatch /
routeMessage), DBusClientConnection.addMatch / delMatch / signalReceived, Bus.dbus_AddMatch and
RemoteDBusObject.notifyOnSignal against Model/Router.v (model) and Spec/MatchSpec.v (oracle).

Case kinds (first element):
  ['pair', rule, msg]          one rule on a fresh MessageRouter, one message routed: called or not
  ['hist', events]             add / del / route history on a real MessageRouter; callbacks may raise and may
                               call delMatch / addMatch themselves
  ['client', events]           the same (passive callbacks) through a real DBusClientConnection on a fake
                               transport: AddMatch / RemoveMatch texts, signals delivered as bytes
  ['shist', how, events]       add / del / route history (passive callbacks) on a real MessageRouter in which callbacks
  ['sclient', how, events]     with the same tag are ONE receiver registered under several rules (how: 0 the same function
                               object, 1 equal bound methods of one object, 2 one callable object); the same through a
                               real DBusClientConnection.  Judged per receiver: calls == number of its satisfied rules
  ['cdaemon', events]          the same against the reference daemon (a multiset of rule texts that answers
                               AddMatch / RemoveMatch and forwards a broadcast signal iff a held rule is satisfied)
  ['async', declared, events]  client and proxy calls with the daemon answering LATER: events as above plus
                               [3, cb] ro.notifyOnSignal('Tick', cb), [4, id] ro.cancelSignalNotification(id),
                               [5] the oldest unanswered AddMatch / RemoveMatch call is taken by the daemon and answered
  ['text', rule]               client.addMatch text of the rule, read back by the real Bus.dbus_AddMatch
  ['rawtext', text]            any text through Bus.dbus_AddMatch (malformed stream)
  ['proxy', declared, msg, cancelled]   RemoteDBusObject.notifyOnSignal on a real connection

  rule  = [type, sender, interface, member, path, path_namespace, destination, args, arg_paths, arg0namespace]
          strings or None; args / arg_paths = [[idx, str], ...]
  msg   = [kind, type, path, interface, member, destination, sender, signature, body]
          kind 'real': built by the message classes, marshalled and parsed back; 'stub': a plain object with
          these attributes (MessageRouter only reads attributes); body = None | [arg, ...]
  arg   = ['s', str] | ['o', str] | ['n', k]   (k indexes NONSTR)
  event = [0, rule, [tag, raises, [action, ...]]] | [1, id] | [2, msg];  action = [0, id] | [1, rule, tag, raises]
"""
import itertools
import os

from harness import common

ASSUMPTIONS = [
    'the constraints compared are the ones the property lists (type, interface, member, path, path_namespace, '
    'destination, argN, argNpath); `sender` and `arg0namespace` are written into the rule text and stored by the '
    'router but never evaluated by it (the daemon filters on them before a signal reaches the client); rules '
    'carrying them are generated and the check does not alarm on it',
    'a body element counts as a string when it is a Python str: values of DBus type o and g unmarshal to str and '
    'are matched by argN like type s (the DBus specification restricts argN to type s)',
    'rule values are str and argument indexes are non-negative int (what client.addMatch can put into a rule '
    'text); int() in Bus.dbus_AddMatch is modelled for ASCII letters and digits only',
    'callbacks raise subclasses of Exception and, for odd tags, of BaseException outside the Exception hierarchy (Rule.match catches '
    'BaseException: "regardless of other callbacks raising")',
    'callbacks that re-enter the router do so through router.delMatch / router.addMatch with a passive callback; '
    'on the client the table only changes when an AddMatch / RemoveMatch reply arrives, never during routing',
    'for callbacks that change the rule table during a route the property is read as: a rule registered when the '
    'route starts, satisfied by the signal and not removed during the route is called exactly once; a rule is not '
    'called after its removal; rules added during the route may or may not see this signal (not compared with '
    'the specification, only with the model)',
    'the order in which matching callbacks are called is not compared (multiset per route)',
    'shist / sclient cases: one receiver (the same function object, equal bound methods of one object, or one callable '
    'object) is registered under several rules; it cannot see through which rule a call came, so what is compared is '
    'the number of calls per receiver and route: it must equal the number of currently registered rules of that receiver '
    'which the message satisfies (Spec.MatchSpec verdict per rule: "exactly once per matching rule"); a receiver raises '
    'always or never; with the model the multiset of tags called is compared',
    'AddMatch / RemoveMatch replies are delivered by the harness immediately and successfully (the Deferred '
    'plumbing of callRemote is property C08); an unknown message type name makes router.addMatch raise after '
    'the bus accepted the text, which shows as a failed Deferred',
    'Twisted log output of the exceptions swallowed in Rule.match is discarded',
    'async cases: the stand-in daemon takes a written AddMatch / RemoveMatch call, and its reply arrives, only at an '
    '"answer" event (oldest call first); between writing and answering nothing about that call has happened at the '
    'daemon.  A rule counts as live from the reply of its AddMatch until a RemoveMatch for it is WRITTEN; from then until '
    'that call is answered it may or may not be called; after a successful answer it must stay silent.  A refused '
    'RemoveMatch for a rule that was live or being removed when it was written is client:remove-refused.  At the client '
    'layer a rule id is handed to conn.delMatch at most once (conn.delMatch has no guard: a second call before the '
    'reply writes a second RemoveMatch - the proxy layer guards with _signalRules, which is what these cases exercise '
    'with cancels repeated back to back and around the reply); the Deferred of the delMatch issued by '
    'cancelSignalNotification is not handed out and not compared',
    'cdaemon cases: the daemon is the reference daemon of Spec/DaemonSpec.v (per connection a multiset of rule texts; '
    'AddMatch adds one instance or answers MatchRuleInvalid for a text that cannot be read / an unknown type name, '
    'RemoveMatch removes one instance or answers MatchRuleNotFound); each call is answered before the next event; '
    'signals are broadcast (no destination) and injected only if a held text stands for a rule the signal satisfies; '
    'what a text stands for is taken from the model (rule_string of the rules of the case) and the verdict from '
    'Spec.MatchSpec; no rule value contains , or = ; the rule without constraints is included: its text is the empty '
    'string, which the reference daemon takes as satisfied by every message; '
    'a client that reference-counts identical texts consistently on both AddMatch and RemoveMatch would keep the '
    'oracle quiet and show only as a correspondence difference of the calls written',
]

# ---------------------------------------------------------------------------------------------
# pools
TYPES = ['signal', 'method_call', 'method_return', 'error']
PATHS = ['/', '/a', '/a/b', '/a/bc', '/a/b/c', '/ab', '/a/b/c/d']
IFACES = ['org.ex.I', 'org.ex.Ix', 'org.ex.J']
MEMBERS = ['M', 'Mx', 'N']
DESTS = [None, ':1.42', ':1.5', 'org.ex.D']
SENDERS = [None, ':1.7', ':1.8']
STRS = ['x', 'y', '', 'xy', '/a/b', '/a/bc', '/a/b/', '/a/', '/', '/a/b/c', '/a', 'a,b', "it's", 'k=v', 'é',
        '5', 'True', '1.5', '0', "['x']"]     # the last five print like the NONSTR arguments: argN must still not match those
OPATHS = ['/a/b', '/a/bc', '/', '/a/b/c', '/a']
NONSTR = [[5, 'i'], [True, 'b'], [1.5, 'd'], [['x'], 'as'], [0, 'u'], [['/a/b', 7], '(si)']]
RULE_PATHS = PATHS + ['', '/a/bcd', '/zz', '/a/b/cd']      # object paths (and the empty value): values a daemon accepts
BAD_TYPES = ['bogus', '', 'Signal', 'signal ']
KEYS = ['type', 'sender', 'interface', 'member', 'path', 'path_namespace', 'destination', 'args', 'arg_paths',
        'arg0namespace']
EMPTY_RULE = [None, None, None, None, None, None, None, [], [], None]


def O(s):
    return '()' if s is None else '(%s)' % common.dump(s)


def dump_pairs(l):
    return '(%s)' % ' '.join('(%d %s)' % (i, common.dump(v)) for i, v in (l or []))


def dump_rule(r):
    return '(%s %s %s %s %s %s %s %s %s %s)' % (O(r[0]), O(r[1]), O(r[2]), O(r[3]), O(r[4]), O(r[5]), O(r[6]),
                                              dump_pairs(r[7]), dump_pairs(r[8]), O(r[9]))


def dump_arg(a):
    if a[0] in ('s', 'o'):
        return '(0 %s)' % common.dump(a[1])
    return '(1 %d)' % a[1]


def sig_of(m):
    """the signature header of the message: given, or (real messages) the one the body is marshalled with"""
    if m[7] is not None or m[0] != 'real' or m[8] is None:
        return m[7]
    s = ''.join('s' if a[0] == 's' else 'o' if a[0] == 'o' else NONSTR[a[1]][1] for a in m[8])
    return s or None


def dump_msg(m):
    body = '()' if m[8] is None else '((%s))' % ' '.join(dump_arg(a) for a in m[8])
    return '(%d %s %s %s %s %s %s %s)' % (m[1], O(m[2]), O(m[3]), O(m[4]), O(m[5]), O(m[6]), O(sig_of(m)), body)


def dump_action(a):
    if a[0] == 0:
        return '(0 %d)' % a[1]
    return '(1 %s %d %d)' % (dump_rule(a[1]), a[2], 1 if a[3] else 0)


def dump_event(e):
    if e[0] == 0:
        k = e[2]
        return '(0 %s (%d %d (%s)))' % (dump_rule(e[1]), k[0], 1 if k[1] else 0,
                                        ' '.join(dump_action(a) for a in k[2]))
    if e[0] == 1:
        return '(1 %d)' % e[1]
    return '(2 %s)' % dump_msg(e[1])


def key(x):
    return repr(x)


# ---------------------------------------------------------------------------------------------
# the implementation side
class CbOdd(BaseException):
    """a callback may raise ANYTHING ("regardless of other callbacks raising"): exceptions outside the Exception hierarchy
    (GeneratorExit, asyncio.CancelledError ... are BaseException) included"""


def cb_raise(tag):
    if tag % 2:
        raise CbOdd('callback %d' % tag)
    raise CbError('callback %d' % tag)


class CbError(Exception):
    pass


RAISED = [0]      # callbacks that raised when called (evidence only)


class Stub(object):
    pass


class FakeTransport:
    disconnecting = False

    def __init__(self):
        self.out = []

    def write(self, data):
        self.out.append(data)

    def writeSequence(self, seq):
        self.out.append(b''.join(seq))

    def loseConnection(self):
        self.disconnecting = True


class Impl:
    def __init__(self):
        from twisted.internet import task
        from twisted.python import log
        import txdbus.client
        import txdbus.protocol
        from txdbus import message, router, bus, objects, interface
        txdbus.protocol._is_linux = False
        try:                               # the swallowed callback exceptions are logged; discard the text
            from twisted.logger import globalLogBeginner
            globalLogBeginner.beginLoggingTo([lambda event: None], redirectStandardIO=False, discardBuffer=True)
        except Exception:
            pass
        self.task = task
        self.client, self.message, self.router, self.bus = txdbus.client, message, router, bus
        self.objects, self.interface = objects, interface
        self.msgs = {}
        self.raws = {}
        self._bus = None

    # -- messages ---------------------------------------------------------------------------
    def body_of(self, m):
        """-> (signature or None, python body or None)"""
        if m[8] is None:
            return None, None
        sig, vals = '', []
        for a in m[8]:
            if a[0] == 's':
                sig += 's'
                vals.append(a[1])
            elif a[0] == 'o':
                sig += 'o'
                vals.append(a[1])
            else:
                v, s = NONSTR[a[1]]
                sig += s
                vals.append(v)
        return (sig or None), vals

    def raw(self, m):
        k = key(m)
        r = self.raws.get(k)
        if r is None:
            M = self.message
            saved = M.DBusMessage._nextSerial
            M.DBusMessage._nextSerial = 1
            try:
                sig, body = self.body_of(m)
                if m[7] is not None:
                    sig = m[7]
                if not sig:
                    body = None
                t = m[1]
                if t == 4:
                    o = M.SignalMessage(m[2], m[4], m[3], m[5], sig, body)
                elif t == 1:
                    o = M.MethodCallMessage(m[2], m[4], interface=m[3], destination=m[5], signature=sig, body=body)
                elif t == 2:
                    o = M.MethodReturnMessage(9, signature=sig, body=body, destination=m[5])
                else:
                    o = M.ErrorMessage('org.ex.Err', 9, signature=sig, body=body, destination=m[5])
                if m[6] is not None:
                    o.sender = m[6]
                    o._marshal(False)
                r = bytes(o.rawMessage)
            finally:
                M.DBusMessage._nextSerial = saved
            self.raws[k] = r
        return r

    def msg(self, m):
        k = key(m)
        o = self.msgs.get(k)
        if o is None:
            if m[0] == 'real':
                o = self.message.parseMessage(self.raw(m), [])
            else:
                o = Stub()
                o._messageType = m[1]
                o.path, o.interface, o.member, o.destination, o.sender, o.signature = m[2:8]
                if m[8] is None:
                    o.body = None
                else:
                    o.body = [a[1] if a[0] in ('s', 'o') else NONSTR[a[1]][0] for a in m[8]]
            self.msgs[k] = o
        return o

    # -- rules --------------------------------------------------------------------------------
    @staticmethod
    def router_kwargs(r, flip=False):
        def pl(l):
            if not l:
                return [] if flip else None
            return [(i, v) for i, v in l]
        return dict(mtype=r[0], sender=r[1], interface=r[2], member=r[3], path=r[4], path_namespace=r[5],
                    destination=r[6], args=pl(r[7]), arg_paths=pl(r[8]), arg0namespace=r[9])

    @staticmethod
    def client_kwargs(r, flip=False):
        d = Impl.router_kwargs(r, flip)
        d['arg'] = d.pop('args')
        d['arg_path'] = d.pop('arg_paths')
        return d

    # -- a connected client ---------------------------------------------------------------------
    def connect(self):
        clock = self.task.Clock()
        self.client.reactor = clock
        self.message.DBusMessage._nextSerial = 1
        f = self.client.DBusClientFactory()
        p = f.buildProtocol(None)
        p.makeConnection(FakeTransport())
        p.dataReceived(b'OK 1234abcd\r\n')
        assert p._authenticated, 'fake handshake failed'
        hello = list(p._pendingCalls)
        assert len(hello) == 1
        p.dataReceived(self.reply(hello[0], 's', [':1.42']))
        assert p.busName == ':1.42', 'Hello reply was not delivered'
        return p

    def reply(self, serial, sig=None, body=None):
        M = self.message
        saved = M.DBusMessage._nextSerial
        M.DBusMessage._nextSerial = 1
        try:
            return bytes(M.MethodReturnMessage(serial, signature=sig, body=body).rawMessage)
        finally:
            M.DBusMessage._nextSerial = saved

    def error_reply(self, serial, name):
        M = self.message
        saved = M.DBusMessage._nextSerial
        M.DBusMessage._nextSerial = 1
        try:
            return bytes(M.ErrorMessage(name, serial, signature='s', body=['refused']).rawMessage)
        finally:
            M.DBusMessage._nextSerial = saved

    def last_call(self, p):
        """the method call the client wrote last -> (member, interface, destination, path, signature, body, serial)"""
        m = self.message.parseMessage(p.transport.out[-1], [])
        return m

    def the_bus(self):
        if self._bus is None:
            b = self.bus.Bus()

            class C(object):
                def __init__(self):
                    self.matchRules = set()     # BusProtocol.matchRules (ids recorded by dbus_AddMatch since D50)

                def sendMessage(self, m):
                    pass
            b.clients[':1.1'] = C()
            self._bus = b
        return self._bus

    def bus_parse(self, text):
        """Bus.dbus_AddMatch(text) -> [1, rule] (the keyword arguments it hands to router.addMatch) | [0, code]"""
        b = self.the_bus()
        seen = {}
        orig = b.router.addMatch

        def spy(cb, **kw):
            seen['kw'] = kw
            return 0
        b.router.addMatch = spy
        try:
            try:
                b.dbus_AddMatch(text, ':1.1')
            except Exception as e:
                return [0, exc_code(e)]
        finally:
            b.router.addMatch = orig
        kw = seen.get('kw')
        if kw is None:
            return [0, 'no-addMatch']
        return [1, canon_kwargs(kw)]


def exc_code(e):
    if isinstance(e, KeyError):
        return 4
    if isinstance(e, ValueError):
        return 11
    if isinstance(e, RuntimeError):
        return 11
    if type(e).__name__ == 'RemoteError':      # an error reply from the daemon
        return 11
    return 'exc:' + type(e).__name__


def canon_kwargs(kw):
    def pl(l):
        if l is None:
            return []
        if isinstance(l, str):
            return ['str', l]
        return [[i, v] for i, v in l]
    return [kw.get('mtype'), kw.get('sender'), kw.get('interface'), kw.get('member'), kw.get('path'),
            kw.get('path_namespace'), kw.get('destination'), pl(kw.get('args')), pl(kw.get('arg_paths')),
            kw.get('arg0namespace')]


_impl = []


def impl():
    if not _impl:
        _impl.append(Impl())
    return _impl[0]


# -- decoding model answers -------------------------------------------------------------------
def dec_str(x):
    if isinstance(x, (bytes, bytearray)):
        return bytes(x).decode('latin-1')
    return ''.join(chr(c) for c in x)


def dec_ostr(x):
    return None if x == [] else dec_str(x[0])


def dec_rule(x):
    return [dec_ostr(x[0]), dec_ostr(x[1]), dec_ostr(x[2]), dec_ostr(x[3]), dec_ostr(x[4]), dec_ostr(x[5]),
            dec_ostr(x[6]), [[i, dec_str(v)] for i, v in x[7]], [[i, dec_str(v)] for i, v in x[8]], dec_ostr(x[9])]


def dec_res(x, f=lambda v: v):
    return [1, f(x[1])] if x[0] == 1 else [0, x[1]]


def dec_obs(o):
    if o[0] == 0:
        return [0, dec_res(o[1])]
    if o[0] == 1:
        return [1, [1] if o[1][0] == 1 else [0, o[1][1]]]
    return [2, sorted([i, t] for i, t in o[1]), [1] if o[2][0] == 1 else [0, o[2][1]]]


def canon_rule(r):
    return [r[0], r[1], r[2], r[3], r[4], r[5], r[6], [list(p) for p in (r[7] or [])],
            [list(p) for p in (r[8] or [])], r[9]]


# ---------------------------------------------------------------------------------------------
# running one history on a real MessageRouter
class HistRun:
    """Drives a MessageRouter through the events; records what happened, in order, per route."""

    def __init__(self, I, via_client=False):
        self.I = I
        self.router = I.router.MessageRouter()
        self.log = None            # during a route: ('call', id, tag) | ('del', id) | ('add', id, rule)
        self.registered = {}       # id -> rule, from the implementation's own answers
        self.tag_of = {}           # id -> tag of the callback it was registered with
        self.flip = False

    def make_cb(self, tag, raises, acts, box):
        def cb(m):
            self.log.append(('call', box[0], tag))
            for a in acts:
                if a[0] == 0:
                    self.router.delMatch(a[1])           # KeyError ends the callback
                    self.registered.pop(a[1], None)
                    self.log.append(('del', a[1]))
                else:
                    b2 = [None]
                    b2[0] = self.router.addMatch(self.make_cb(a[2], a[3], [], b2), **Impl.router_kwargs(a[1]))
                    self.registered[b2[0]] = a[1]
                    self.log.append(('add', b2[0], a[1]))
            if raises:
                RAISED[0] += 1
                cb_raise(tag)
        return cb

    def step(self, e):
        """-> canonical observation, plus for a route (log, registered-at-start, escaped)"""
        if e[0] == 0:
            box = [None]
            self.flip = not self.flip
            try:
                box[0] = self.router.addMatch(self.make_cb(e[2][0], e[2][1], e[2][2], box),
                                              **Impl.router_kwargs(e[1], self.flip))
            except (Exception, CbOdd) as x:
                return [0, [0, exc_code(x)]], None
            self.registered[box[0]] = e[1]
            self.tag_of[box[0]] = e[2][0]
            return [0, [1, box[0]]], None
        if e[0] == 1:
            try:
                self.router.delMatch(e[1])
            except (Exception, CbOdd) as x:
                return [1, [0, exc_code(x)]], None
            self.registered.pop(e[1], None)
            return [1, [1]], None
        m = self.I.msg(e[1])
        start = dict(self.registered)
        self.log = []
        esc = [1]
        try:
            self.router.routeMessage(m)
        except (Exception, CbOdd) as x:
            esc = [0, exc_code(x)]
        log, self.log = self.log, None
        called = sorted([i, t] for k, i, t in [x for x in log if x[0] == 'call'])
        return [2, called, esc], (log, start, esc)


class ClientRun:
    """The same history through a real DBusClientConnection (passive callbacks)."""

    def __init__(self, I):
        self.I = I
        self.p = I.connect()
        self.log = None
        self.registered = {}
        self.tag_of = {}
        self.texts = []            # (rule, AddMatch text)
        self.remove_texts = []     # (id, RemoveMatch text, AddMatch text it was registered with)
        self.text_of = {}
        self.flip = False

    def make_cb(self, tag, raises, box):
        def cb(m):
            self.log.append(('call', box[0], tag))
            if raises:
                RAISED[0] += 1
                cb_raise(tag)
        return cb

    def step(self, e):
        p, I = self.p, self.I
        if e[0] == 0:
            tag, raises = e[2][0], e[2][1]
            box = [None]
            cb = self.make_cb(tag, raises, box)
            self.flip = not self.flip
            nout = len(p.transport.out)
            d = p.addMatch(cb, **Impl.client_kwargs(e[1], self.flip))
            got = []
            d.addCallbacks(lambda i: got.append([1, i]), lambda f: got.append([0, exc_code(f.value)]))
            if len(p.transport.out) != nout + 1:
                return [0, [0, 'no-AddMatch-written']], None
            c = I.last_call(p)
            if not (c._messageType == 1 and c.member == 'AddMatch' and c.interface == 'org.freedesktop.DBus'
                    and c.destination == 'org.freedesktop.DBus' and c.path == '/org/freedesktop/DBus'
                    and c.signature == 's' and len(c.body) == 1):
                return [0, [0, 'not-an-AddMatch-call']], None
            self.texts.append((e[1], c.body[0]))
            if got:
                return [0, [0, 'completed-before-the-reply']], None
            p.dataReceived(I.reply(c.serial))
            if not got:
                return [0, [0, 'no-completion']], None
            if got[0][0] == 1:
                box[0] = got[0][1]
                self.registered[box[0]] = e[1]
                self.tag_of[box[0]] = tag
                self.text_of[box[0]] = c.body[0]
            return [0, got[0]], None
        if e[0] == 1:
            nout = len(p.transport.out)
            try:
                d = p.delMatch(e[1])
            except (Exception, CbOdd) as x:
                return [1, [0, exc_code(x)]], None
            got = []
            d.addCallbacks(lambda _: got.append([1]), lambda f: got.append([0, exc_code(f.value)]))
            if len(p.transport.out) != nout + 1:
                return [1, [0, 'no-RemoveMatch-written']], None
            c = I.last_call(p)
            if not (c._messageType == 1 and c.member == 'RemoveMatch' and c.interface == 'org.freedesktop.DBus'
                    and c.destination == 'org.freedesktop.DBus' and c.signature == 's' and len(c.body) == 1):
                return [1, [0, 'not-a-RemoveMatch-call']], None
            self.remove_texts.append((e[1], c.body[0], self.text_of.get(e[1])))
            p.dataReceived(I.reply(c.serial))
            if got == [[1]]:
                self.registered.pop(e[1], None)
                return [1, [1]], None
            return [1, got[0] if got else [0, 'no-completion']], None
        start = dict(self.registered)
        self.log = []
        esc = [1]
        try:
            p.dataReceived(I.raw(e[1]))
        except (Exception, CbOdd) as x:
            esc = [0, exc_code(x)]
        log, self.log = self.log, None
        called = sorted([i, t] for k, i, t in log)
        return [2, called, esc], (log, start, esc)


class SharedCallable(object):
    """ONE receiver that may be registered under any number of rules.  `how` says which callable is handed to addMatch
    at each registration: 0 the same function object, 1 a bound method of the same object (a fresh bound-method object
    each time: equal, not identical), 2 the object itself (it has __call__).  The receiver cannot tell which rule a
    call came through: it records its tag only."""

    def __init__(self, run, tag, raises):
        self.run, self.tag, self.raises = run, tag, raises

        def fn(m):
            self.receive(m)
        self.fn = fn

    def receive(self, m):
        self.run.log.append(('call', None, self.tag))
        if self.raises:
            RAISED[0] += 1
            cb_raise(self.tag)

    __call__ = receive

    def handle(self, how):
        return self.fn if how == 0 else self.receive if how == 1 else self


class SharedMixin(object):
    """callbacks carrying the same tag (and the same raising behaviour) are the SAME receiver"""

    def init_shared(self, how):
        self.how = how
        self.receivers = {}

    def shared_cb(self, tag, raises):
        k = (tag, bool(raises))
        if k not in self.receivers:
            self.receivers[k] = SharedCallable(self, tag, bool(raises))
        return self.receivers[k].handle(self.how)


class SharedHistRun(SharedMixin, HistRun):
    def __init__(self, I, how):
        HistRun.__init__(self, I)
        self.init_shared(how)

    def make_cb(self, tag, raises, acts, box):
        return self.shared_cb(tag, raises)


class SharedClientRun(SharedMixin, ClientRun):
    def __init__(self, I, how):
        ClientRun.__init__(self, I)
        self.init_shared(how)

    def make_cb(self, tag, raises, box):
        return self.shared_cb(tag, raises)


def shared_route_oracle(log, start, tag_of, esc, msg, verdict):
    """one receiver under several rules: it cannot see through which rule a call came, so the count per receiver is
    judged: a receiver is called exactly as many times as it has registered rules the message satisfies ("exactly
    once per matching rule").  -> list of (why, signature)"""
    out = []
    if esc != [1]:
        out.append(('routeMessage let an exception escape (%r)' % (esc,), 'route:exception-escaped'))
    got, exp, ids = {}, {}, {}
    for x in log:
        got[x[2]] = got.get(x[2], 0) + 1
    for i, r in sorted(start.items()):
        if verdict(r, msg)[0]:
            t = tag_of.get(i)
            exp[t] = exp.get(t, 0) + 1
            ids.setdefault(t, []).append(i)
    for t in sorted(set(list(got) + list(exp)), key=repr):
        g, x = got.get(t, 0), exp.get(t, 0)
        if g < x and esc == [1]:
            out.append(('the receiver with tag %r is registered under %d rules the message satisfies (ids %r) but was '
                        'called %d time(s): not once per matching rule' % (t, x, ids.get(t), g),
                        'route:shared-receiver-fewer-calls-than-matching-rules'))
        elif g > x:
            out.append(('the receiver with tag %r is registered under %d rule(s) the message satisfies (ids %r) but '
                        'was called %d times' % (t, x, ids.get(t, []), g),
                        'route:shared-receiver-more-calls-than-matching-rules'))
    return out


class DaemonRun:
    """A real DBusClientConnection on a connection to the reference daemon of Spec/DaemonSpec.v.  The Python stand-in
    keeps its own multiset of rule texts and answers the AddMatch / RemoveMatch calls the client writes; what a text
    means (which rule it stands for, whether a signal satisfies it, whether the daemon takes it) comes from the model:
    `rules_by_text` maps the model's text of each rule of the case to the rule, `accepted(text)` and
    `verdict(rule, msg)` are model / specification answers.  Signals are broadcast: injected only if a held rule is
    satisfied."""

    def __init__(self, I, rules_by_text, accepted, verdict):
        self.I = I
        self.p = I.connect()
        self.seen = len(self.p.transport.out)
        self.held = {}             # text -> instances
        self.rules_by_text = rules_by_text
        self.accepted = accepted
        self.verdict = verdict
        self.registered = {}       # id -> rule, from the implementation's own answers
        self.removed = set()
        self.log = None
        self.flip = False

    def pump(self):
        """answer every method call written since the last time -> [[0, text] | [1, text], ...]"""
        p, I = self.p, self.I
        wires = []
        while self.seen < len(p.transport.out):
            raw = p.transport.out[self.seen]
            self.seen += 1
            m = I.message.parseMessage(raw, [])
            if m._messageType != 1:
                continue
            ok = True
            err = None
            if m.member in ('AddMatch', 'RemoveMatch') and m.interface == 'org.freedesktop.DBus' \
                    and m.destination == 'org.freedesktop.DBus' and m.signature == 's' and len(m.body) == 1:
                text = m.body[0]
                if m.member == 'AddMatch':
                    wires.append([0, text])
                    if self.accepted(text):
                        self.held[text] = self.held.get(text, 0) + 1
                    else:
                        ok, err = False, 'org.freedesktop.DBus.Error.MatchRuleInvalid'
                else:
                    wires.append([1, text])
                    if self.held.get(text, 0) > 0:
                        self.held[text] -= 1
                    else:
                        ok, err = False, 'org.freedesktop.DBus.Error.MatchRuleNotFound'
            else:
                wires.append(['other', m.member])
            if m.expectReply:
                p.dataReceived(I.reply(m.serial) if ok else I.error_reply(m.serial, err))
        return wires

    def forwards(self, msg):
        for t, n in self.held.items():
            if n > 0 and any(self.verdict(r, msg)[0] for r in self.rules_by_text.get(t, [])):
                return True
        return False

    def step(self, e):
        p = self.p
        if e[0] == 0:
            tag, raises = e[2][0], e[2][1]
            box = [None]

            def cb(m):
                self.log.append(('call', box[0], tag))
                if raises:
                    RAISED[0] += 1
                    cb_raise(tag)
            self.flip = not self.flip
            got = []
            try:
                d = p.addMatch(cb, **Impl.client_kwargs(e[1], self.flip))
            except (Exception, CbOdd) as x:
                return [0, self.pump(), [0, exc_code(x)]], None
            d.addCallbacks(lambda i: got.append([1, i]), lambda f: got.append([0, exc_code(f.value)]))
            wires = self.pump()
            r = got[0] if got else [0, 'no-completion']
            if r[0] == 1:
                box[0] = r[1]
                self.registered[r[1]] = e[1]
            return [0, wires, r], None
        if e[0] == 1:
            live = e[1] in self.registered
            got = []
            try:
                d = p.delMatch(e[1])
            except (Exception, CbOdd) as x:
                return [1, self.pump(), [0, exc_code(x)]], ('del', live, None)
            d.addCallbacks(lambda _: got.append([1]), lambda f: got.append([0, exc_code(f.value), f.value]))
            wires = self.pump()
            r = got[0] if got else [0, 'no-completion']
            if r == [1]:
                if live:
                    self.removed.add(e[1])
                self.registered.pop(e[1], None)
                return [1, wires, [1]], ('del', live, None)
            return [1, wires, r[:2]], ('del', live, r[2] if len(r) > 2 else None)
        fwd = self.forwards(e[1])
        start = dict(self.registered)
        self.log = []
        esc = [1]
        if fwd:
            try:
                p.dataReceived(self.I.raw(e[1]))
            except (Exception, CbOdd) as x:
                esc = [0, exc_code(x)]
        self.pump()
        log, self.log = self.log, None
        return [2, 1 if fwd else 0, sorted([i, t] for k, i, t in log)], ('sig', log, start, esc)


PRULE = ['signal', None, 'org.ex.P', 'Tick', '/a/b', None, None, [], [], None]     # the rule notifyOnSignal registers


def gate_ok(declared, msg):
    return (declared or '') == (sig_of(msg) or '')


class AsyncRun:
    """A real DBusClientConnection and a real RemoteDBusObject on it; the stand-in for the reference daemon keeps the
    method calls the client writes in a queue and takes / answers the oldest one only at an 'answer' event."""

    def __init__(self, I, declared, rules_by_text, accepted, verdict):
        self.I = I
        self.p = I.connect()
        iface = I.interface.DBusInterface('org.ex.P', I.interface.Signal('Tick', declared if declared is not None else ''))
        if declared is None:
            iface.signals['Tick'].sig = None
        self.ro = I.objects.RemoteDBusObject(self.p.objHandler, ':1.9', '/a/b', [iface])
        self.declared = declared
        self.seen = len(self.p.transport.out)
        self.queue = []            # unanswered calls: {'kind': 0 add / 1 remove, 'text', 'serial', 'rec'}
        self.held = {}
        self.rules_by_text = rules_by_text
        self.accepted = accepted
        self.verdict = verdict
        self.status = {}           # rule id -> 'live' | 'removing' | 'removed'   (from what was written / answered)
        self.info = {}             # rule id -> (rule, tag, via proxy)
        self.log = None
        self.flip = False
        self.refused = []          # RemoveMatch calls the daemon refused: (id, status when written)

    def collect(self, rec):
        p, I = self.p, self.I
        wires = []
        while self.seen < len(p.transport.out):
            raw = p.transport.out[self.seen]
            self.seen += 1
            m = I.message.parseMessage(raw, [])
            if m._messageType != 1:
                continue
            if m.member in ('AddMatch', 'RemoveMatch') and m.interface == 'org.freedesktop.DBus' \
                    and m.destination == 'org.freedesktop.DBus' and m.signature == 's' and len(m.body) == 1:
                kind = 0 if m.member == 'AddMatch' else 1
                wires.append([kind, m.body[0]])
                self.queue.append({'kind': kind, 'text': m.body[0], 'serial': m.serial, 'rec': rec,
                                   'reply': m.expectReply})
            else:
                wires.append(['other', m.member])
        return wires

    def forwards(self, msg):
        for t, n in self.held.items():
            if n > 0 and any(self.verdict(r, msg)[0] for r in self.rules_by_text.get(t, [])):
                return True
        return False

    def issue_del(self, rec, wires):
        i = rec['id']
        rec['was'] = self.status.get(i)
        if any(w[0] == 1 for w in wires) and self.status.get(i) == 'live':
            self.status[i] = 'removing'

    def step(self, e):
        p, I = self.p, self.I
        k = e[0]
        if k in (0, 3):
            cbd = e[2] if k == 0 else e[1]
            tag, raises = cbd[0], cbd[1]
            box = [None]
            rec = {'kind': 'add', 'rule': e[1] if k == 0 else PRULE, 'tag': tag, 'proxy': k == 3, 'got': [], 'box': box}

            def cb(*args):
                self.log.append(('call', box[0], tag))
                if raises:
                    RAISED[0] += 1
                    cb_raise(tag)
            try:
                if k == 0:
                    self.flip = not self.flip
                    d = p.addMatch(cb, **Impl.client_kwargs(e[1], self.flip))
                else:
                    d = self.ro.notifyOnSignal('Tick', cb)
            except (Exception, CbOdd) as x:
                return [0, self.collect(rec), [0, exc_code(x)]], None
            d.addCallbacks(lambda i: rec['got'].append([1, i]), lambda f: rec['got'].append([0, exc_code(f.value)]))
            return [0, self.collect(rec), [1]], None
        if k in (1, 4):
            rec = {'kind': 'del', 'id': e[1], 'got': [], 'cancel': k == 4}
            try:
                if k == 1:
                    d = p.delMatch(e[1])
                    d.addCallbacks(lambda _: rec['got'].append([1]), lambda f: rec['got'].append([0, exc_code(f.value)]))
                else:
                    d = self.ro.cancelSignalNotification(e[1])
                    if d is not None and hasattr(d, 'addErrback'):
                        d.addErrback(lambda f: None)
            except (Exception, CbOdd) as x:
                wires = self.collect(rec)
                self.issue_del(rec, wires)
                return [0, wires, [0, exc_code(x)]], None
            wires = self.collect(rec)
            self.issue_del(rec, wires)
            return [0, wires, [1]], None
        if k == 5:
            if not self.queue:
                return [1, 2], None
            q = self.queue.pop(0)
            rec = q['rec']
            ok, err = True, None
            if q['kind'] == 0:
                if self.accepted(q['text']):
                    self.held[q['text']] = self.held.get(q['text'], 0) + 1
                else:
                    ok, err = False, 'org.freedesktop.DBus.Error.MatchRuleInvalid'
            else:
                if self.held.get(q['text'], 0) > 0:
                    self.held[q['text']] -= 1
                else:
                    ok, err = False, 'org.freedesktop.DBus.Error.MatchRuleNotFound'
            if q['reply']:
                p.dataReceived(I.reply(q['serial']) if ok else I.error_reply(q['serial'], err))
            self.collect(None)
            if rec is None:
                return [1, 'unattributed'], None
            if rec['kind'] == 'add':
                r = rec['got'][0] if rec['got'] else [0, 'no-completion']
                if r[0] == 1:
                    rec['box'][0] = r[1]
                    self.status[r[1]] = 'live'
                    self.info[r[1]] = (rec['rule'], rec['tag'], rec['proxy'])
                return [1, 0, r], None
            i = rec['id']
            if q['kind'] == 1:
                if ok:
                    if self.status.get(i) == 'removing':
                        self.status[i] = 'removed'
                else:
                    self.refused.append((i, rec.get('was')))
                    if self.status.get(i) == 'removing':
                        self.status[i] = 'live'
            if rec['cancel']:
                return [1, 1, '?'], ('refused', i, rec.get('was')) if not ok else None
            r = rec['got'][0] if rec['got'] else [0, 'no-completion']
            return [1, 1, r], ('refused', i, rec.get('was')) if not ok else None
        fwd = self.forwards(e[1])
        self.log = []
        esc = [1]
        if fwd:
            try:
                p.dataReceived(I.raw(e[1]))
            except (Exception, CbOdd) as x:
                esc = [0, exc_code(x)]
        self.collect(None)
        log, self.log = self.log, None
        return [2, 1 if fwd else 0, sorted([i, t] for _, i, t in log)], ('sig', log, esc)


def dec_aobs(o):
    if o[0] == 0:
        return [0, [[w[0], dec_str(w[1])] for w in o[1]], [1] if o[2][0] == 1 else [0, o[2][1]]]
    if o[0] == 1:
        if o[1] == 0:
            return [1, 0, dec_res(o[2])]
        if o[1] == 1:
            return [1, 1, [1] if o[2][0] == 1 else [0, o[2][1]]]
        return [1, 2]
    return [2, o[1], sorted([i, t] for i, t in o[2])]


def dump_aevent(e):
    if e[0] == 0:
        return dump_event(e)
    if e[0] == 1:
        return '(1 %d)' % e[1]
    if e[0] == 2:
        return '(2 %s)' % dump_msg(e[1])
    if e[0] == 3:
        return '(3 (%d %d ()))' % (e[1][0], 1 if e[1][1] else 0)
    if e[0] == 4:
        return '(4 %d)' % e[1]
    return '(5)'


def dec_cobs(o):
    if o[0] == 0:
        return [0, [[w[0], dec_str(w[1])] for w in o[1]], dec_res(o[2])]
    if o[0] == 1:
        return [1, [[w[0], dec_str(w[1])] for w in o[1]], [1] if o[2][0] == 1 else [0, o[2][1]]]
    return [2, o[1], sorted([i, t] for i, t in o[2])]


# ---------------------------------------------------------------------------------------------
# oracle for one route: implementation's calls vs the specification's verdicts
def route_oracle(log, start, esc, msg, verdict):
    """-> list of (why, signature, rule or None).  verdict(rule, msg) -> (spec matches?, registrable?)"""
    out = []
    if esc != [1]:
        out.append(('routeMessage let an exception escape (%r)' % (esc,), 'route:exception-escaped', None))
    removed_at = {}
    calls = {}
    for n, x in enumerate(log):
        if x[0] == 'del':
            removed_at.setdefault(x[1], n)
        elif x[0] == 'call':
            calls.setdefault(x[1], []).append(n)
    added = set(x[1] for x in log if x[0] == 'add')
    for i, ns in sorted(calls.items()):
        if i in added and i not in start:
            continue                    # added during this route: may or may not see the signal
        if i not in start:
            out.append(('callback of rule %r called though the rule is not registered' % i,
                        'route:removed-rule-called', None))
            continue
        if not verdict(start[i], msg)[0]:
            out.append(('callback of rule %r %r called for a message that does not satisfy it' % (i, start[i]),
                        'match:called-unsatisfied', start[i]))
        if len(ns) > 1:
            out.append(('callback of rule %r called %d times' % (i, len(ns)), 'route:called-twice', None))
        if i in removed_at and any(n > removed_at[i] for n in ns):
            out.append(('callback of rule %r called after the rule was removed' % i, 'route:removed-rule-called', None))
    for i, r in sorted(start.items()):
        if verdict(r, msg)[0] and i not in calls and i not in removed_at:
            if esc != [1]:
                out.append(('rule %r is satisfied but its callback was not called: routeMessage stopped' % i,
                            'route:exception-escaped', None))
            elif removed_at or added:
                out.append(('rule %r is satisfied and still registered but was skipped after a callback changed '
                            'the rule table' % i, 'route:rule-skipped-after-table-change', None))
            else:
                out.append(('rule %r %r is satisfied but its callback was not called' % (i, r),
                            'match:not-called-satisfied', r))
    return out


def single_rules(rule):
    """the rule taken apart: one rule per constraint -> [(key name, rule)]"""
    out = []
    for k in range(10):
        if k in (1, 9):
            continue
        if k in (7, 8):
            for p in rule[k] or []:
                r1 = list(EMPTY_RULE)
                r1[k] = [p]
                out.append((KEYS[k], r1))
        elif rule[k] is not None:
            r1 = list(EMPTY_RULE)
            r1[k] = rule[k]
            out.append((KEYS[k], r1))
    return out


def impl_called(I, rule, msg):
    r = I.router.MessageRouter()
    calls = []
    try:
        r.addMatch(lambda m: calls.append(1), **Impl.router_kwargs(rule))
        r.routeMessage(I.msg(msg))
    except Exception:
        return False
    return bool(calls)


def refine_signature(I, sig, rule, msg, single):
    """name the first constraint (in the order of KEYS) that the implementation evaluates differently from the
    specification when it stands alone: single(rule_with_one_constraint, msg) -> spec verdict"""
    if not sig.startswith('match:'):
        return sig
    for name, r1 in single_rules(rule):
        if impl_called(I, r1, msg) != single(r1, msg):
            return sig + ':' + name
    return sig + ':combination'


# ---------------------------------------------------------------------------------------------
def evaluate(ctx, cases, res):
    I = impl()
    cases = [list(c) for c in cases]
    # development aid: VERIF_C12_LEGACY=1 compares the implementation with the pre-repair model instead
    leg = 1 if os.environ.get('VERIF_C12_LEGACY') == '1' else 0
    bysig = res.extra.setdefault('violations_by_signature', {})
    _violate = res.violate

    def violate(case, why, sig):
        bysig[sig] = bysig.get(sig, 0) + 1
        if bysig[sig] <= 6:                # a few replays per signature; the counts are kept
            _violate(case, why, sig)
    # -- model calls: one line per case, plus one (12 4) line per distinct (rule, msg) pair of the histories
    pair_ix = {}
    pair_lines = []

    def want(rule, msg):
        k = key((canon_rule(rule), msg))
        if k not in pair_ix:
            pair_ix[k] = len(pair_lines)
            pair_lines.append('(12 4 %s %s)' % (dump_rule(rule), dump_msg(msg)))
        return pair_ix[k]

    def want_text(rule):
        k = key(('text', canon_rule(rule)))
        if k not in pair_ix:
            pair_ix[k] = len(pair_lines)
            pair_lines.append('(12 1 %s)' % dump_rule(rule))
        return pair_ix[k]

    lines = []
    for c in cases:
        kind = c[0]
        if kind == 'pair':
            lines.append('(12 4 %s %s)' % (dump_rule(c[1]), dump_msg(c[2])))
        elif kind in ('hist', 'client'):
            lines.append('(12 0 (%s))' % ' '.join(dump_event(e) for e in c[1]))
            rules = [e[1] for e in c[1] if e[0] == 0]
            for e in c[1]:
                if e[0] == 0:
                    rules += [a[1] for a in e[2][2] if a[0] == 1]
            msgs = [e[1] for e in c[1] if e[0] == 2]
            for r in rules:
                for m in msgs:
                    want(r, m)
        elif kind in ('shist', 'sclient'):
            if any(e[0] == 0 and e[2][2] for e in c[2]):
                raise RuntimeError('shared-receiver histories have passive callbacks')
            lines.append('(12 0 (%s))' % ' '.join(dump_event(e) for e in c[2]))
            for r in [e[1] for e in c[2] if e[0] == 0]:
                for m in [e[1] for e in c[2] if e[0] == 2]:
                    want(r, m)
        elif kind == 'async':
            lines.append('(12 6 %s %s (%s))' % (O(c[1]), dump_rule(PRULE), ' '.join(dump_aevent(e) for e in c[2])))
            rules = [e[1] for e in c[2] if e[0] == 0] + [PRULE]
            msgs = [e[1] for e in c[2] if e[0] == 2]
            for r in rules:
                want_text(r)
                for m in msgs:
                    want(r, m)
        elif kind == 'cdaemon':
            lines.append('(12 5 (%s))' % ' '.join(dump_event(e) for e in c[1]))
            rules = [e[1] for e in c[1] if e[0] == 0]
            msgs = [e[1] for e in c[1] if e[0] == 2]
            for r in rules:
                want_text(r)
                for m in msgs:
                    want(r, m)
        elif kind == 'text':
            lines.append('(12 1 %s)' % dump_rule(c[1]))
        elif kind == 'rawtext':
            lines.append('(12 2 %s)' % common.dump(c[1]))
        elif kind == 'proxy':
            lines.append('(12 3 %s %s)' % (O(c[1]), dump_msg(c[2])))
        else:
            raise RuntimeError('unknown case kind %r' % (kind,))
    outs = common.run_model(lines + pair_lines)
    pair_outs = outs[len(lines):]
    outs = outs[:len(lines)]
    for o, l in zip(outs + pair_outs, lines + pair_lines):
        if o == [-1]:
            raise RuntimeError('model rejected input %s' % l[:300])

    def verdict(rule, msg):
        o = pair_outs[pair_ix[key((canon_rule(rule), msg))]]
        return (o[2] == 1, o[3] == 1)

    late = []          # violations whose signature is refined with extra model calls: (case, why, sig, rule, msg)
    dist = res.extra.setdefault('input_distribution', {'kinds': {}, 'pair_spec_true': 0, 'pair_spec_false': 0,
                                                      'routes': 0, 'callbacks_called': 0, 'reentrant_routes': 0,
                                                      'raising_callbacks_called': 0})
    legacy_diff = res.extra.get('legacy_variants_distinguished', 0)

    for c, o in zip(cases, outs):
        kind = c[0]
        dist['kinds'][kind] = dist['kinds'].get(kind, 0) + 1
        if kind == 'pair':
            rule, msg = c[1], c[2]
            model, legacy, spec, regable = o
            if leg:
                model, legacy = legacy, model
            r = I.router.MessageRouter()
            calls = []
            try:
                r.addMatch(lambda m: calls.append(1), **Impl.router_kwargs(rule))
                added = 1
            except (Exception, CbOdd) as x:
                added = 0
            esc = 0
            try:
                r.routeMessage(I.msg(msg))
            except Exception:
                esc = 1
            obs = len(calls) if not esc else 'escaped'
            res.count(c, nontrivial=any(rule[k] for k in range(10)))
            dist['pair_spec_true' if spec else 'pair_spec_false'] += 1
            if model != legacy:
                legacy_diff += 1
            if obs != model:
                res.disagree(c, obs, model)
            if added != regable and model == 0 and obs == 0:
                pass          # a refused rule and a rule that matches nothing are the same to the property
            if obs != spec:
                if obs == 'escaped':
                    violate(c, 'routeMessage raised', 'route:exception-escaped')
                elif obs == 0:
                    late.append((c, 'the message satisfies the rule but the callback was not called',
                                 'match:not-called-satisfied', rule, msg))
                elif spec == 0:
                    late.append((c, 'callback called %r time(s) for a message that does not satisfy the rule' % obs,
                                 'match:called-unsatisfied', rule, msg))
                else:
                    violate(c, 'callback called %r times for one rule' % obs, 'route:called-twice')
        elif kind in ('hist', 'client'):
            events = c[1]
            run = ClientRun(I) if kind == 'client' else HistRun(I)
            nontrivial = False
            for n, (e, mo) in enumerate(zip(events, o)):
                ob, extra = run.step(e)
                model_ob = dec_obs(mo[leg])
                if dec_obs(mo[1 - leg]) != model_ob:
                    legacy_diff += 1
                if model_ob[0] == 2 and model_ob[2] == [0, 9]:
                    break          # (pre-repair model only) a dict changed under its iterator: not modelled
                differs = ob != model_ob
                if e[0] == 2:
                    # oracle first: it needs the implementation's own answers and the specification only
                    log, start, esc = extra
                    dist['routes'] += 1
                    dist['callbacks_called'] += len(ob[1])
                    if any(x[0] != 'call' for x in log):
                        dist['reentrant_routes'] += 1
                    if start:
                        nontrivial = True
                    found = route_oracle(log, start, esc, e[1], verdict)
                    for why, sig, r in found:
                        if r is not None:
                            late.append((c, why, sig, r, e[1]))
                        else:
                            violate(c, why, sig)
                    if mo[2] != [] and not differs and not found:
                        exp = sorted([i, t] for i, t in mo[2][0])
                        if ob[1] != exp:
                            violate(c, 'event %d: callbacks called %r, the specification expects %r'
                                    % (n, ob[1], exp), 'route:not-the-expected-callbacks')
                if differs:
                    res.disagree(c, ['event', n, ob], ['event', n, model_ob])
                    break
            res.count(c, nontrivial=nontrivial)
            res.traces += 1
            if kind == 'client':
                # RemoveMatch must carry the text the rule was added with
                for i, t, t0 in run.remove_texts:
                    if t != t0:
                        violate(c, 'RemoveMatch for rule %r sent %r, AddMatch had sent %r' % (i, t, t0),
                                    'text:remove-differs-from-add')
                for rule, text in run.texts:
                    late.append((c, None, 'TEXT', rule, text))
        elif kind in ('shist', 'sclient'):
            how, events = c[1], c[2]
            run = SharedClientRun(I, how) if kind == 'sclient' else SharedHistRun(I, how)
            nontrivial = False
            for n, (e, mo) in enumerate(zip(events, o)):
                ob, extra = run.step(e)
                model_ob = dec_obs(mo[leg])
                if e[0] == 2:
                    log, start, esc = extra
                    ob = [2, sorted(x[2] for x in log), esc]
                    model_ob = [2, sorted(t for _, t in model_ob[1]), model_ob[2]]
                    dist['routes'] += 1
                    dist['callbacks_called'] += len(ob[1])
                    exp = {}
                    for i, r in start.items():
                        if verdict(r, e[1])[0]:
                            exp[run.tag_of.get(i)] = exp.get(run.tag_of.get(i), 0) + 1
                    if any(k > 1 for k in exp.values()):
                        nontrivial = True
                        dist['routes_one_receiver_several_matching_rules'] = \
                            dist.get('routes_one_receiver_several_matching_rules', 0) + 1
                    for why, sig in shared_route_oracle(log, start, run.tag_of, esc, e[1], verdict):
                        violate(c, 'event %d: %s' % (n, why), sig)
                if ob != model_ob:
                    res.disagree(c, ['event', n, ob], ['event', n, model_ob])
                    break
            res.count(c, nontrivial=nontrivial)
            res.traces += 1
            if kind == 'sclient':
                for i, t, t0 in run.remove_texts:
                    if t != t0:
                        violate(c, 'RemoveMatch for rule %r sent %r, AddMatch had sent %r' % (i, t, t0),
                                'text:remove-differs-from-add')
        elif kind == 'async':
            declared, events = c[1], c[2]
            by_text, acc = {}, {}
            for r in [e[1] for e in events if e[0] == 0] + [PRULE]:
                to = pair_outs[pair_ix[key(('text', canon_rule(r)))]]
                t = dec_str(to[0])
                if canon_rule(r) not in [canon_rule(x) for x in by_text.setdefault(t, [])]:
                    by_text[t].append(r)
                acc[t] = to[2] == 1
            run = AsyncRun(I, declared, by_text, lambda t: acc.get(t, True), verdict)
            nontrivial = False
            differs = False
            for n, (e, mo) in enumerate(zip(events, o)):
                ob, extra = run.step(e)
                model_ob = dec_aobs(mo)
                if ob[:2] == [1, 1] and ob[2] == '?' and model_ob[:2] == [1, 1]:
                    model_ob = [1, 1, '?']        # the Deferred of a cancel's delMatch is not handed out
                if extra and extra[0] == 'refused' and extra[2] in ('live', 'removing'):
                    violate(c, 'event %d: the RemoveMatch written for rule %r (%s when written) was refused by the daemon '
                            '(it holds %r)' % (n, extra[1], extra[2], dict((t, k) for t, k in run.held.items() if k)),
                            'client:remove-refused')
                if e[0] == 2:
                    _, log, esc = extra
                    dist['routes'] += 1
                    dist['callbacks_called'] += len(ob[2])
                    dist['daemon_forwarded'] = dist.get('daemon_forwarded', 0) + ob[1]
                    if esc != [1]:
                        violate(c, 'event %d: dataReceived let an exception escape (%r)' % (n, esc),
                                'route:exception-escaped')
                    calls = {}
                    for x in log:
                        calls[x[1]] = calls.get(x[1], 0) + 1
                    for i in sorted(set(list(calls) + list(run.info)), key=repr):
                        cnt = calls.get(i, 0)
                        st = run.status.get(i)
                        if i not in run.info:
                            violate(c, 'event %d: a callback was called for rule id %r that was never registered' % (n, i),
                                    'client:removed-rule-invoked')
                            continue
                        rule, tag, via = run.info[i]
                        nontrivial = True
                        sat_rule = verdict(rule, e[1])[0]
                        sat = sat_rule and (not via or gate_ok(declared, e[1]))
                        if st == 'removed' and cnt:
                            violate(c, 'event %d: callback of rule %r called though the rule is removed' % (n, i),
                                    'client:removed-rule-invoked')
                        elif cnt > 1:
                            violate(c, 'event %d: callback of rule %r called %d times' % (n, i, cnt), 'route:called-twice')
                        elif cnt and not sat_rule:
                            late.append((c, 'event %d: callback of rule %r %r called for a signal that does not satisfy '
                                         'it' % (n, i, rule), 'match:called-unsatisfied', rule, e[1]))
                        elif cnt and not sat:
                            violate(c, 'event %d: subscription %r called though the signal signature is not the declared '
                                    'one' % (n, i), 'proxy:called-wrong-signature')
                        elif st == 'live' and sat and not cnt:
                            violate(c, 'event %d: rule %r is live (%s) and the signal satisfies it, but its callback was '
                                    'not called (the daemon holds %r, signal %s)'
                                    % (n, i, 'proxy subscription' if via else 'client rule',
                                       dict((t, k) for t, k in run.held.items() if k),
                                       'forwarded' if ob[1] else 'not forwarded'), 'client:live-rule-not-served')
                if ob != model_ob and not differs:
                    differs = True
                    res.disagree(c, ['event', n, ob], ['event', n, model_ob])
            res.count(c, nontrivial=nontrivial)
            res.traces += 1
        elif kind == 'cdaemon':
            events = c[1]
            by_text, acc = {}, {}
            for e in events:
                if e[0] == 0:
                    to = pair_outs[pair_ix[key(('text', canon_rule(e[1])))]]
                    t = dec_str(to[0])
                    if canon_rule(e[1]) not in [canon_rule(r) for r in by_text.setdefault(t, [])]:
                        by_text[t].append(e[1])
                    acc[t] = to[2] == 1
            run = DaemonRun(I, by_text, lambda t: acc.get(t, True), verdict)
            nontrivial = False
            differs = False
            for n, (e, mo) in enumerate(zip(events, o)):
                ob, extra = run.step(e)
                model_ob = dec_cobs(mo[0])
                if e[0] == 1 and extra[1] and ob[2] != [1]:
                    violate(c, 'event %d: delMatch(%r) of a live rule failed (%r, wire %r): RemoveMatch was refused'
                            % (n, e[1], extra[2], ob[1]), 'client:remove-refused')
                if e[0] == 2:
                    kind_, log, start, esc = extra
                    dist['routes'] += 1
                    dist['callbacks_called'] += len(ob[2])
                    dist['daemon_forwarded'] = dist.get('daemon_forwarded', 0) + ob[1]
                    if start:
                        nontrivial = True
                    found = False
                    if esc != [1]:
                        found = True
                        violate(c, 'event %d: dataReceived let an exception escape (%r)' % (n, esc),
                                'route:exception-escaped')
                    calls = {}
                    for x in log:
                        calls[x[1]] = calls.get(x[1], 0) + 1
                    for i, cnt in sorted(calls.items(), key=repr):
                        if i not in start:
                            found = True
                            violate(c, 'event %d: callback of rule %r called though the rule is %s'
                                    % (n, i, 'removed' if i in run.removed else 'not registered'),
                                    'client:removed-rule-invoked')
                        elif not verdict(start[i], e[1])[0]:
                            found = True
                            late.append((c, 'event %d: callback of rule %r %r called for a signal that does not '
                                         'satisfy it' % (n, i, start[i]), 'match:called-unsatisfied', start[i], e[1]))
                        elif cnt > 1:
                            found = True
                            violate(c, 'event %d: callback of rule %r called %d times' % (n, i, cnt),
                                    'route:called-twice')
                    for i, r in sorted(start.items()):
                        if verdict(r, e[1])[0] and i not in calls:
                            found = True
                            violate(c, 'event %d: rule %r %r is live and the signal satisfies it, but its callback was '
                                    'not called (the daemon holds %r, signal %s)'
                                    % (n, i, r, dict((t, k) for t, k in run.held.items() if k),
                                       'forwarded' if ob[1] else 'not forwarded'), 'client:live-rule-not-served')
                    if mo[1] != [] and not differs and not found:
                        exp = sorted([i, t] for i, t in mo[1][0])
                        if ob[2] != exp:
                            violate(c, 'event %d: callbacks called %r, the specification expects %r'
                                    % (n, ob[2], exp), 'route:not-the-expected-callbacks')
                if ob != model_ob and not differs:
                    differs = True             # keep going: the oracle needs the implementation's answers only
                    res.disagree(c, ['event', n, ob], ['event', n, model_ob])
            res.count(c, nontrivial=nontrivial)
            res.traces += 1
        elif kind == 'text':
            rule = c[1]
            mtext = dec_str(o[0])
            mparse = dec_res(o[1], dec_rule)
            p = I.connect()
            nout = len(p.transport.out)
            p.addMatch(lambda m: None, **Impl.client_kwargs(rule))
            text = None
            if len(p.transport.out) == nout + 1:
                cm = I.last_call(p)
                if cm.member == 'AddMatch' and cm.signature == 's':
                    text = cm.body[0]
            res.count(c, nontrivial=any(rule[k] for k in range(10)))
            if text != mtext:
                res.disagree(c, ['text', text], ['text', mtext])
                continue
            bp = I.bus_parse(text)
            if bp[0] != mparse[0] or (bp[0] == 1 and bp[1] != mparse[1]):
                if not (mparse == [0, 9]):          # EUnmodelled
                    res.disagree(c, ['bus-parse', bp], ['bus-parse', mparse])
            if clean_rule(rule) and bp != [1, canon_rule(rule)]:
                violate(c, 'the AddMatch text %r read back by Bus.dbus_AddMatch gives %r, not the rule' % (text, bp),
                            'text:not-the-same-constraints')
        elif kind == 'rawtext':
            mparse = dec_res(o, dec_rule)
            bp = I.bus_parse(c[1])
            res.count(c, nontrivial=len(c[1]) > 0)
            if mparse == [0, 9]:
                dist['rawtext_unmodelled'] = dist.get('rawtext_unmodelled', 0) + 1
                continue
            if bp[0] != mparse[0] or (bp[0] == 1 and bp[1] != mparse[1]):
                res.disagree(c, bp, mparse)
        elif kind == 'proxy':
            declared, msg, cancelled = c[1], c[2], c[3]
            model = None if o[0] == [] else o[0][0]
            spec = None if o[1] == [] else o[1][0]
            ob, text = run_proxy(I, declared, msg, cancelled)
            if cancelled:
                model = spec = None
            res.count(c, nontrivial=msg[8] is not None or declared)
            mo = None if model is None else [dec_marg(a) for a in model]
            so = None if spec is None else [dec_marg(a) for a in spec]
            if ob != mo:
                res.disagree(c, ob, mo)
            if ob != so:
                if ob is None:
                    violate(c, 'the signal carries the declared signature but the callback was not called',
                                'proxy:not-called-right-signature')
                elif so is None:
                    violate(c, 'callback called with %r though %s' %
                                (ob, 'the subscription was cancelled' if cancelled else
                                 'the signal signature is not the declared one'),
                                'proxy:called-after-cancel' if cancelled else 'proxy:called-wrong-signature')
                else:
                    violate(c, 'callback got %r, the signal carries %r' % (ob, so), 'proxy:wrong-arguments')
            late.append((c, None, 'TEXT', ['signal', None, 'org.ex.P', 'Tick', '/a/b', None, None, [], [], None],
                         text))

    # -- second round: refine signatures / check texts with extra model calls --------------------
    lines2 = []
    plan = []
    for item in late:
        c, why, sig, rule, x = item
        if sig == 'TEXT':
            plan.append(('text', len(lines2)))
            lines2.append('(12 1 %s)' % dump_rule(rule))
        else:
            singles = [r1 for _, r1 in single_rules(rule)]
            plan.append(('sig', len(lines2), singles))
            for r1 in singles:
                lines2.append('(12 4 %s %s)' % (dump_rule(r1), dump_msg(x)))
    outs2 = common.run_model(lines2) if lines2 else []
    for item, pl in zip(late, plan):
        c, why, sig, rule, x = item
        if pl[0] == 'text':
            mtext = dec_str(outs2[pl[1]][0])
            if x != mtext:
                res.disagree(c, ['text', rule, x], ['text', rule, mtext])
            bp = I.bus_parse(x) if x is not None else None
            if x is not None and clean_rule(rule) and bp != [1, canon_rule(rule)]:
                violate(c, 'the AddMatch text %r read back by Bus.dbus_AddMatch gives %r, not the rule %r'
                            % (x, bp, rule), 'text:not-the-same-constraints')
        else:
            verd = {}
            for j, r1 in enumerate(pl[2]):
                verd[key(r1)] = outs2[pl[1] + j][2] == 1
            violate(c, why, refine_signature(I, sig, rule, x, lambda r1, m: verd[key(r1)]))
    res.extra['legacy_variants_distinguished'] = legacy_diff
    dist['raising_callbacks_called'] = RAISED[0]


def dec_marg(a):
    if a[0] == 0:
        return ['s', dec_str(a[1])]
    return ['n', a[1]]


def clean_rule(r):
    """values free of ',' and '=' and at least one constraint: what the bus's split-based reader can take"""
    vals = [r[k] for k in (0, 1, 2, 3, 4, 5, 6, 9) if r[k] is not None] + [v for _, v in (r[7] or [])] + \
           [v for _, v in (r[8] or [])]
    if not vals:
        return False
    return not any((',' in v or '=' in v) for v in vals)


def run_proxy(I, declared, msg, cancelled):
    """-> (None | [canonical args], AddMatch text)"""
    p = I.connect()
    iface = I.interface.DBusInterface('org.ex.P', I.interface.Signal('Tick', declared if declared is not None else ''))
    if declared is None:
        iface.signals['Tick'].sig = None
    ro = I.objects.RemoteDBusObject(p.objHandler, ':1.9', '/a/b', [iface])
    got = []

    def cb(*args):
        got.append(list(args))
    ids = []
    d = ro.notifyOnSignal('Tick', cb)
    d.addCallback(ids.append)
    cm = I.last_call(p)
    text = cm.body[0] if cm.member == 'AddMatch' else None
    p.dataReceived(I.reply(cm.serial))
    if len(ids) != 1:
        return ['no-rule-id'], text
    if cancelled:
        ro.cancelSignalNotification(ids[0])
        cm = I.last_call(p)
        if cm.member == 'RemoveMatch':
            p.dataReceived(I.reply(cm.serial))
    p.dataReceived(I.raw(msg))
    if not got:
        return None, text
    if len(got) > 1:
        return ['called', len(got)], text
    out = []
    for v in got[0]:
        if isinstance(v, str):
            out.append(['s', v])
        else:
            for k, (nv, _) in enumerate(NONSTR):
                if type(nv) is type(v) and nv == v:
                    out.append(['n', k])
                    break
            else:
                out.append(['?', repr(v)])
    return out, text


# ---------------------------------------------------------------------------------------------
# generators
def gen_body(rng, stub=False):
    r = rng.random()
    if r < 0.15:
        return None
    if stub and r < 0.2:
        return []
    n = rng.choice([1, 1, 2, 2, 3])
    out = []
    for _ in range(n):
        q = rng.random()
        if q < 0.6:
            out.append(['s', rng.choice(STRS)])
        elif q < 0.75:
            out.append(['o', rng.choice(OPATHS)])
        else:
            out.append(['n', rng.randrange(len(NONSTR))])
    return out


def gen_msg(rng):
    r = rng.random()
    if r < 0.72:
        return ['real', 4, rng.choice(PATHS), rng.choice(IFACES), rng.choice(MEMBERS), rng.choice(DESTS),
                rng.choice(SENDERS), None, gen_body(rng)]
    if r < 0.8:
        return ['real', 1, rng.choice(PATHS), rng.choice(IFACES + [None]), rng.choice(MEMBERS),
                rng.choice(DESTS[1:]), rng.choice(SENDERS), None, gen_body(rng)]
    if r < 0.84:
        return ['real', rng.choice([2, 3]), None, None, None, rng.choice(DESTS), rng.choice(SENDERS), None,
                gen_body(rng)]
    # stub: a plain object with the attributes Rule.match reads (absent fields, empty body list)
    return ['stub', rng.choice([4, 4, 4, 1, 2, 3, 0]), rng.choice(PATHS + [None]),
            rng.choice(IFACES + [None]), rng.choice(MEMBERS + [None]), rng.choice(DESTS),
            rng.choice(SENDERS), None, gen_body(rng, True)]


def ancestors(p):
    out = ['/']
    parts = [x for x in p.split('/') if x]
    for i in range(1, len(parts) + 1):
        out.append('/' + '/'.join(parts[:i]))
    return out


def matching_rule(rng, m, density=0.45):
    """a rule the message should satisfy, over a random subset of the keys"""
    r = list(EMPTY_RULE)
    tn = {1: 'method_call', 2: 'method_return', 3: 'error', 4: 'signal'}.get(m[1])
    if tn and rng.random() < density:
        r[0] = tn
    if rng.random() < 0.15:
        r[1] = rng.choice(SENDERS[1:])
    for k, f in ((2, 3), (3, 4), (4, 2), (6, 5)):
        if m[f] is not None and rng.random() < density:
            r[k] = m[f]
    if m[2] and rng.random() < density:
        r[5] = rng.choice(ancestors(m[2]))
    body = m[8] or []
    for i, a in enumerate(body):
        if a[0] in ('s', 'o'):
            if rng.random() < density:
                r[7] = r[7] + [[i, a[1]]]
            if rng.random() < density:
                v = a[1]
                q = rng.random()
                if q < 0.4 or not v.startswith('/'):
                    pv = v
                elif q < 0.7:
                    anc = [x if x.endswith('/') else x + '/' for x in ancestors(v.rstrip('/') or '/')]
                    anc = [x for x in anc if v.startswith(x)] or [v]
                    pv = rng.choice(anc)
                elif v.endswith('/'):
                    pv = v + rng.choice(['c', 'c/d', 'x/'])
                else:
                    pv = v
                r[8] = r[8] + [[i, pv]]
    if rng.random() < 0.1:
        r[9] = 'org.ex'
    return r


def near_miss(rng, r, m):
    """change one key of the rule into a near miss"""
    r = [list(x) if isinstance(x, list) else x for x in r]
    k = rng.choice([0, 2, 3, 4, 5, 6, 7, 8])
    if k == 0:
        r[0] = rng.choice(TYPES + BAD_TYPES)
    elif k == 2:
        r[2] = rng.choice(IFACES + ['org.ex', ''])
    elif k == 3:
        r[3] = rng.choice(MEMBERS + [''])
    elif k == 4:
        r[4] = rng.choice(RULE_PATHS)
    elif k == 5:
        p = m[2] or '/a/b'
        r[5] = rng.choice(RULE_PATHS + [p[:-1] if len(p) > 1 and p[-2] != '/' else '/', p + 'c' if p != '/' else '/c',
                                        p + '/x' if p != '/' else '/x'])
    elif k == 6:
        r[6] = rng.choice([':1.42', ':1.5', 'org.ex.D', ''])
    elif k == 7:
        n = len(m[8] or [])
        r[7] = r[7] + [[rng.choice([0, 1, n, n + 1, max(0, n - 1)]), rng.choice(STRS)]]
    else:
        n = len(m[8] or [])
        r[8] = r[8] + [[rng.choice([0, 1, n, max(0, n - 1)]), rng.choice(STRS + ['/a/b/c/', '/a/b/c/d'])]]
    return r


def random_rule(rng):
    r = list(EMPTY_RULE)
    for k, pool in ((0, TYPES + BAD_TYPES), (1, [':1.7', 'org.ex.S']), (2, IFACES + ['']), (3, MEMBERS + ['']),
                    (4, RULE_PATHS), (5, RULE_PATHS), (6, [':1.42', ':1.5', '']), (9, ['org.ex'])):
        if rng.random() < 0.2:
            r[k] = rng.choice(pool)
    for k in (7, 8):
        for _ in range(rng.choice([0, 0, 0, 1, 1, 2])):
            r[k] = r[k] + [[rng.choice([0, 0, 1, 2, 3, 10]), rng.choice(STRS)]]
    return r


def gen_rule_for(rng, m):
    q = rng.random()
    if q < 0.4:
        return matching_rule(rng, m)
    if q < 0.85:
        return near_miss(rng, matching_rule(rng, m), m)
    return random_rule(rng)


def gen_pairs(ctx):
    rng = ctx.rng
    # exhaustive small scope: every single-key rule over the value pools x a fixed set of messages
    msgs = []
    for p in ['/', '/a/b', '/a/bc', '/a/b/c']:
        for body in (None, [['s', '/a/b']], [['s', '/a/bc']], [['s', '/a/']], [['s', '/a/b/']], [['n', 0]],
                     [['s', 'x'], ['s', 'y']], [['o', '/a/b']]):
            msgs.append(['real', 4, p, 'org.ex.I', 'M', None, None, None, body])
    msgs.append(['real', 4, '/a/b', 'org.ex.Ix', 'Mx', ':1.42', ':1.7', None, None])
    msgs.append(['real', 1, '/a/b', 'org.ex.I', 'M', ':1.42', None, None, [['s', 'x']]])
    msgs.append(['real', 2, None, None, None, ':1.42', None, None, None])
    msgs.append(['stub', 4, '/a/b', 'org.ex.I', 'M', None, None, None, []])
    msgs.append(['stub', 4, None, None, None, None, None, None, None])
    singles = []
    for k, pool in ((0, TYPES + BAD_TYPES), (2, IFACES + ['', 'org.ex']), (3, MEMBERS + ['']), (4, RULE_PATHS),
                    (5, RULE_PATHS), (6, [':1.42', ':1.5', '']), (1, [':1.7']), (9, ['org.ex'])):
        for v in pool:
            r = list(EMPTY_RULE)
            r[k] = v
            singles.append(r)
    for k in (7, 8):
        for i in (0, 1, 2):
            for v in ['x', 'y', '', '/a/b', '/a/bc', '/a/', '/a/b/', '/', '/a/b/c', '/a']:
                r = list(EMPTY_RULE)
                r[k] = [[i, v]]
                singles.append(r)
    singles.append(list(EMPTY_RULE))
    for r in singles:
        for m in msgs:
            yield ['pair', r, m]
    for _ in range(ctx.n(5000, 100000)):
        m = gen_msg(rng)
        yield ['pair', gen_rule_for(rng, m), m]


def gen_cb(rng, tag, nids, rules, reentrant):
    acts = []
    if reentrant and rng.random() < 0.3:
        for _ in range(rng.choice([1, 1, 2])):
            if rng.random() < 0.7:
                acts.append([0, rng.randrange(0, nids + 2)])
            else:
                acts.append([1, rng.choice(rules), 100 + tag, rng.random() < 0.2])
    return [tag, rng.random() < 0.3, acts]


def gen_history(rng, reentrant, real_only=False, maxlen=14):
    msgs = []
    while len(msgs) < rng.choice([1, 2, 3]):
        m = gen_msg(rng)
        if real_only and not (m[0] == 'real' and m[1] == 4):
            continue
        msgs.append(m)
    rules = []
    for _ in range(rng.choice([2, 3, 4])):
        rules.append(gen_rule_for(rng, rng.choice(msgs)))
    n = rng.randrange(3, maxlen + 1)
    ev = []
    nids = 0
    tag = 0
    for _ in range(n):
        q = rng.random()
        if q < 0.45 or nids == 0 and q < 0.8:
            ev.append([0, rng.choice(rules), gen_cb(rng, tag, max(nids, 2), rules, reentrant)])
            tag += 1
            nids += 1
        elif q < 0.62:
            ev.append([1, rng.randrange(0, nids + 2)])
        else:
            ev.append([2, rng.choice(msgs)])
    ev.append([2, rng.choice(msgs)])
    return ev


def gen_hist_cases(ctx):
    rng = ctx.rng
    # exhaustive: every history of length <= L over {add matching, add non-matching (raising), del 0, del 1, route}
    m = ['real', 4, '/a/b', 'org.ex.I', 'M', None, None, None, [['s', 'x']]]
    r_yes = ['signal', None, 'org.ex.I', None, None, '/a', None, [[0, 'x']], [], None]
    r_no = ['signal', None, None, None, None, '/a/bc', None, [], [], None]
    alphabet = [[0, r_yes, None], [0, r_no, None], [1, 0], [1, 1], [2, m]]
    L = ctx.n(4, 5)
    for n in range(1, L + 1):
        for t in itertools.product(range(5), repeat=n):
            ev = []
            for j, x in enumerate(t):
                e = list(alphabet[x])
                if e[0] == 0:
                    e[2] = [j, j % 2 == 1, []]
                ev.append(e)
            if ev[-1][0] != 2:
                ev.append([2, m])
            yield ['hist', ev]
    # re-entrant callbacks, small exhaustive: three matching rules, the callback of one of them does one action
    for who in range(3):
        for act in ([0, 0], [0, 1], [0, 2], [0, 7], [1, r_yes, 50, False], [1, r_no, 51, True]):
            for raises in (False, True):
                ev = []
                for j in range(3):
                    ev.append([0, r_yes, [j, raises and j == who, [act] if j == who else []]])
                ev += [[2, m], [2, m]]
                yield ['hist', ev]
    for _ in range(ctx.n(1500, 20000)):
        yield ['hist', gen_history(rng, rng.random() < 0.35)]
    for _ in range(ctx.n(300, 4000)):
        yield ['client', gen_history(rng, False, real_only=True, maxlen=10)]


def gen_shared_cases(ctx):
    """ONE receiver registered under SEVERAL rules (the same function object, equal bound methods of one object, or
    one callable object), signals satisfying none, one or several of the rules of a receiver, rules removed one by
    one; on a MessageRouter and through a DBusClientConnection"""
    rng = ctx.rng
    m = ['real', 4, '/a/b', 'org.ex.I', 'M', None, None, None, [['s', 'x']]]
    m2 = ['real', 4, '/a/bc', 'org.ex.I', 'N', None, None, None, [['s', 'x']]]
    r_mem = ['signal', None, 'org.ex.I', 'M', None, None, None, [], [], None]           # m only
    r_ns = ['signal', None, None, None, None, '/a', None, [[0, 'x']], [], None]           # m and m2
    r_no = ['signal', None, None, None, '/a/b/c', None, None, [], [], None]               # neither
    # exhaustive: receiver 0 under up to three rules, receiver 1 (raising) under one; every history of length <= 3
    alphabet = [[0, r_mem, 0], [0, r_ns, 0], [0, r_no, 0], [0, r_ns, 1], [1, 0], [1, 1], [2, m], [2, m2]]
    for how in (0, 1, 2):
        for n in range(1, 4):
            for t in itertools.product(range(len(alphabet)), repeat=n):
                if sum(1 for x in t if x < 3) < 1 or (n > 1 and not any(x < 4 for x in t[:2])):
                    continue
                ev = []
                for x in t:
                    e = list(alphabet[x])
                    if e[0] == 0:
                        e[2] = [e[2], e[2] == 1, []]
                    ev.append(e)
                ev += [[2, m], [2, m2]]
                yield ['shist', how, ev]
    # the same receiver under the same rule twice and under an overlapping one, rules removed one by one
    for how in (0, 1, 2):
        for kind in ('shist', 'sclient'):
            for order in itertools.permutations(range(3)):
                ev = [[0, r_mem, [0, False, []]], [0, r_ns, [0, False, []]], [0, r_mem, [0, False, []]],
                      [0, r_ns, [1, False, []]], [2, m], [2, m2]]
                for i in order:
                    ev += [[1, i], [2, m], [2, m2]]
                yield [kind, how, ev]

    def history(real_only, maxlen):
        msgs = []
        while len(msgs) < rng.choice([1, 2, 2]):
            x = gen_msg(rng)
            if real_only and not (x[0] == 'real' and x[1] == 4):
                continue
            msgs.append(x)
        rules = []
        for _ in range(rng.choice([2, 3, 4])):
            x = rng.choice(msgs)
            q = rng.random()
            rules.append(matching_rule(rng, x, 0.3) if q < 0.7 else near_miss(rng, matching_rule(rng, x, 0.3), x)
                         if q < 0.9 else random_rule(rng))
        ntags = rng.choice([1, 2, 2, 3])
        raising = [rng.random() < 0.25 for _ in range(ntags)]      # a receiver raises always or never
        ev = []
        nids = 0
        for _ in range(rng.randrange(3, maxlen + 1)):
            q = rng.random()
            if q < 0.5 or nids < 2 and q < 0.85:
                t = rng.randrange(ntags)
                ev.append([0, rng.choice(rules), [t, raising[t], []]])
                nids += 1
            elif q < 0.62:
                ev.append([1, rng.randrange(0, nids + 2)])
            else:
                ev.append([2, rng.choice(msgs)])
        ev.append([2, rng.choice(msgs)])
        return ev
    for _ in range(ctx.n(500, 6000)):
        yield ['shist', rng.randrange(3), history(False, 12)]
    for _ in range(ctx.n(120, 2000)):
        yield ['sclient', rng.randrange(3), history(True, 10)]


def gen_cdaemon_cases(ctx):
    """client histories against the reference daemon: few rules, so that the SAME rule text is registered several
    times and some of the instances removed; broadcast signals"""
    rng = ctx.rng
    mA = ['real', 4, '/a/b', 'org.ex.I', 'M', None, ':1.7', None, [['s', 'x']]]
    mB = ['real', 4, '/a/bc', 'org.ex.J', 'N', None, ':1.8', None, None]
    rA = ['signal', None, 'org.ex.I', None, None, '/a', None, [[0, 'x']], [], None]
    rB = ['signal', ':1.8', None, 'N', '/a/bc', None, None, [], [], None]
    alphabet = [[0, rA, None], [0, rB, None], [1, 0], [1, 1], [1, 2], [2, mA], [2, mB]]
    L = ctx.n(4, 5)
    for n in range(1, L + 1):
        for t in itertools.product(range(len(alphabet)), repeat=n):
            if not any(alphabet[x][0] == 0 for x in t):
                continue
            ev = []
            for j, x in enumerate(t):
                e = list(alphabet[x])
                if e[0] == 0:
                    e[2] = [j, j % 3 == 2, []]
                ev.append(e)
            if ev[-1][0] != 2:
                ev += [[2, mA], [2, mB]]
            yield ['cdaemon', ev]
    # the rule without any constraint (rule text ''): added, removed, re-added, signals in between
    rC = list(EMPTY_RULE)
    alphabet = [[0, rC, None], [0, rA, None], [1, 0], [1, 1], [1, 2], [2, mA], [2, mB]]
    for n in range(1, L + 1):
        for t in itertools.product(range(len(alphabet)), repeat=n):
            if 0 not in t:
                continue
            ev = []
            for j, x in enumerate(t):
                e = list(alphabet[x])
                if e[0] == 0:
                    e[2] = [j, j % 3 == 2, []]
                ev.append(e)
            if ev[-1][0] != 2:
                ev += [[2, mA], [2, mB]]
            yield ['cdaemon', ev]
    for _ in range(ctx.n(600, 8000)):
        msgs = []
        while len(msgs) < rng.choice([1, 2, 3]):
            m = gen_msg(rng)
            if m[0] == 'real' and m[1] == 4:
                m = list(m)
                m[5] = None                  # broadcast
                msgs.append(m)
        rules = []
        while len(rules) < rng.choice([1, 2, 2, 3]):
            r = gen_rule_for(rng, rng.choice(msgs))
            if clean_rule(r):
                rules.append(r)
        if rng.random() < 0.3:
            rules.append(list(EMPTY_RULE))
        ev = []
        nids = 0
        for j in range(rng.randrange(3, 13)):
            q = rng.random()
            if q < 0.4 or nids == 0 and q < 0.8:
                ev.append([0, rng.choice(rules), [j, rng.random() < 0.25, []]])
                nids += 1
            elif q < 0.65:
                ev.append([1, rng.randrange(0, nids + 1)])
            else:
                ev.append([2, rng.choice(msgs)])
        ev.append([2, rng.choice(msgs)])
        yield ['cdaemon', ev]


def gen_async_cases(ctx):
    """client / proxy histories with the daemon answering later"""
    rng = ctx.rng
    tick_s = ['real', 4, '/a/b', 'org.ex.P', 'Tick', None, ':1.9', None, [['s', 'x']]]
    tick_i = ['real', 4, '/a/b', 'org.ex.P', 'Tick', None, ':1.9', None, [['n', 0]]]
    other = ['real', 4, '/a/bc', 'org.ex.P', 'Tick', None, ':1.9', None, [['s', 'x']]]
    L = ctx.n(4, 5)

    def tagged(ev):
        out = []
        for j, e in enumerate(ev):
            e = list(e)
            if e[0] == 3:
                e[1] = [j, j % 4 == 3, []]
            elif e[0] == 0:
                e[2] = [j, j % 4 == 3, []]
            out.append(e)
        return out

    # two or three subscriptions to the same signal on one proxy (identical rule text), all answered; then every
    # sequence over {cancel 0, cancel 1, answer, signal, subscribe again}; then the pending calls are answered
    mid = [[4, 0], [4, 1], [5], [2, tick_s], [3, None]]
    for k in (2, 3):
        pre = [[3, None]] * k + [[5]] * k
        for n in range(1, L + 1):
            for t in itertools.product(range(len(mid)), repeat=n):
                ev = pre + [mid[x] for x in t] + [[5]] * n + [[2, tick_s], [2, other]]
                yield ['async', 's', tagged(ev)]
    # the client layer: the same rule added twice and answered; del of each id at most once
    rA = ['signal', None, 'org.ex.P', None, None, '/a', None, [[0, 'x']], [], None]
    mid = [[1, 0], [1, 1], [5], [2, tick_s], [0, rA, None]]
    pre = [[0, rA, None], [0, rA, None], [5], [5]]
    for n in range(1, L + 1):
        for t in itertools.product(range(len(mid)), repeat=n):
            if t.count(0) > 1 or t.count(1) > 1:
                continue             # a rule id is handed to delMatch once (see ASSUMPTIONS)
            ev = pre + [mid[x] for x in t] + [[5]] * n + [[2, tick_s], [2, other]]
            yield ['async', 's', tagged(ev)]
    # random: subscriptions, client rules, cancels of any id (repeated), answers and signals in any order
    for _ in range(ctx.n(500, 6000)):
        declared = rng.choice(['s', 's', 's', '', None, 'i'])
        rules = [rA, list(EMPTY_RULE), ['signal', None, None, 'Tick', None, None, None, [], [[0, '/a/']], None]]
        ev = []
        for j in range(rng.randrange(5, 18)):
            q = rng.random()
            if q < 0.22:
                ev.append([3, None])
            elif q < 0.30:
                ev.append([0, rng.choice(rules), None])
            elif q < 0.50:
                i = rng.randrange(0, 4)
                ev.append([4, i])
                if rng.random() < 0.5:
                    ev.append([4, i])
            elif q < 0.80:
                ev.append([5])
            else:
                ev.append([2, rng.choice([tick_s, tick_s, tick_i, other])])
        ev += [[5]] * rng.randrange(0, 6) + [[2, rng.choice([tick_s, tick_i])]]
        yield ['async', declared, tagged(ev)]


def gen_text_cases(ctx):
    rng = ctx.rng
    yield ['text', list(EMPTY_RULE)]
    full = ['signal', ':1.7', 'org.ex.I', 'M', '/a/b', '/a', ':1.42', [[0, 'x'], [3, "it's"], [12, '']],
            [[1, '/a/'], [10, '/']], 'org.ex']
    yield ['text', full]
    for k in range(10):
        r = list(EMPTY_RULE)
        r[k] = full[k]
        yield ['text', r]
    for _ in range(ctx.n(1500, 20000)):
        m = gen_msg(rng)
        yield ['text', gen_rule_for(rng, m)]
    # malformed stream for the bus's reader
    fixed = ['', "type='signal'", 'a=b=c', "arg0='a,b'", "arg0='a'b'", "argx='1'", "arg0path='/a/'",
             "eavesdrop='true'", 'type=signal', "arg07='x'", "type='signal',", ',', '=', "type=''", "type='",
             'type=', "argpath='x'", "arg='x'", "arg12path='/'", "arg0namespace='org'", "path='/a',path='/b'",
             "arg0='x',arg0='y'", "mtype='signal'", "arg3pathx='1'", "argpathpath='x'", "arg1path2='x'"]
    for t in fixed:
        yield ['rawtext', t]
    keys = ['type', 'sender', 'interface', 'member', 'path', 'path_namespace', 'destination', 'arg0', 'arg1',
            'arg10', 'arg0path', 'arg2path', 'arg0namespace', 'eavesdrop', 'arg', 'argpath', 'argx', 'mtype', 'x', '']
    vals = ["'signal'", "'/a/b'", "''", "'", '', "'x", "x'", "'a,b'", "'k=v'", "'org.ex.I'", 'q']
    for _ in range(ctx.n(600, 6000)):
        items = []
        for _ in range(rng.choice([1, 1, 2, 3])):
            it = rng.choice(keys) + rng.choice(['=', '=', '=', '', '==']) + rng.choice(vals)
            items.append(it)
        yield ['rawtext', rng.choice([',', ',', ',', ', ', ',,']).join(items)]


def gen_proxy_cases(ctx):
    rng = ctx.rng
    decls = [None, '', 's', 'i', 'ss', 'o', 'as', 'si']
    bodies = [None, [['s', 'x']], [['n', 0]], [['s', 'x'], ['s', 'y']], [['o', '/a/b']], [['n', 3]],
              [['s', 'x'], ['n', 0]], [['s', '']]]
    for d in decls:
        for b in bodies:
            for cancelled in (False, True):
                yield ['proxy', d, ['real', 4, '/a/b', 'org.ex.P', 'Tick', None, ':1.9', None, b], cancelled]
    for _ in range(ctx.n(200, 2000)):
        yield ['proxy', rng.choice(decls), ['real', 4, '/a/b', 'org.ex.P', 'Tick', rng.choice([None, ':1.42']),
                                           rng.choice(SENDERS), None, gen_body(rng)], rng.random() < 0.2]


def run(ctx, res):
    res.rule = ('(a) pairs: every single-key rule over the value pools (types incl. unknown names, interfaces, members, '
                'paths with prefix siblings /a/b vs /a/bc and trailing-slash variants, destinations, argN / argNpath '
                'for N in 0..2) x 37 fixed messages, then random messages (72%% parsed signals, other message types, '
                '16%% attribute stubs (absent header fields, an empty body list, message type 0)) with a rule derived from the message: '
                'satisfied on a random key subset (40%%), the same with one key turned into a near miss (45%%), or '
                'independent (15%%); (b) histories on a real MessageRouter: every history of length <= %d over '
                '{add satisfied rule, add unsatisfied rule with raising callback, del 0, del 1, route}, 36 '
                're-entrant three-rule scenarios, random histories of 3..15 events (35%% with callbacks that call '
                'delMatch / addMatch), the same through a real DBusClientConnection; (b1) ONE receiver registered under SEVERAL rules '
                '(the same function object / equal bound methods / one callable object): every history of length <= 3 over {add '
                'member rule, add namespace rule, add unsatisfied rule - all for receiver 0 -, add namespace rule for raising receiver 1, '
                'del 0, del 1, signal satisfying both, signal satisfying one} followed by both signals, the four-rule scenario with the rules '
                'removed in every order on the router and through a DBusClientConnection, random histories with 1-3 receivers over 2-4 mostly '
                'satisfied rules on both layers; (b2) client histories against the reference '
                'daemon (multiset of rule texts): every history of length <= %d over {add A, add B, del 0, del 1, del 2, '
                'signal A, signal B} containing an add (the same text registered repeatedly, instances removed), the same with '
                'the catch-all rule (no constraint, text \'\') in place of B, and random '
                'ones over 1-3 rules; (b3) the same layers with the daemon answering later: two or three subscriptions to one signal on one proxy '
                '(identical rule text), then every sequence of length <= %d over {cancel 0, cancel 1, answer, signal, subscribe}, '
                'then the pending calls answered and signals; the analogous client-layer family; random mixes with repeated '
                'cancels; (c) AddMatch texts read back by '
                'the real Bus.dbus_AddMatch, and a malformed text stream; (d) proxy subscriptions: 8 declared '
                'signatures x 8 bodies x cancelled or not, plus random. non-trivial = the rule has a constraint / a '
                'route with a registered rule / non-empty text; distinct by hash' % (ctx.n(4, 5), ctx.n(4, 5), ctx.n(4, 5)))
    evaluate(ctx, gen_pairs(ctx), res)
    evaluate(ctx, gen_hist_cases(ctx), res)
    evaluate(ctx, gen_shared_cases(ctx), res)
    evaluate(ctx, gen_cdaemon_cases(ctx), res)
    evaluate(ctx, gen_async_cases(ctx), res)
    evaluate(ctx, gen_text_cases(ctx), res)
    evaluate(ctx, gen_proxy_cases(ctx), res)
    res.exhaustive = True
    res.extra['exhaustive_scope'] = ('single-key rules x fixed messages; all add/del/route histories of length <= %d '
                                     'over a 5-event alphabet; 8x8x2 proxy grid (plus random beyond)' % ctx.n(4, 5))
    for c in (['pair', ['signal', None, None, None, None, '/a/b', None, [], [], None],
               ['real', 4, '/a/bc', 'org.ex.I', 'M', None, None, None, None]],):
        res.sample(c)
