"""C09 / C08 with TWO client connections alive in one process (say session bus and system bus).

Connections share nothing but the process-wide serial counter DBusMessage._nextSerial and the reactor: the pending-call
table, the timers, the disconnect callbacks and the proxies of connection A are A's alone.  So each connection must
behave exactly as Model/Connect.v says of it when run ALONE on its own events (a message received on B is an event of
B only, whatever reply_serial it carries), and an event of B must leave everything observable of A as it was.

A case is ['two', address entries A, first serial, setup A, address entries B, setup B, cross] with
cross = [[who, event], ...], who 0 = A, 1 = B; events as in harness/c09.py.  A is connected and set up first, then B
(B's first serial is wherever the counter stands then), then the cross events run in the given order.  Afterwards
virtual time is advanced beyond every timeout."""
from harness import common
from harness import c08


def run_impl(c09, im, case):
    _, addr_a, s0, setup_a, addr_b, setup_b, cross = case
    ev = [list(setup_a) + [e for w, e in cross if w == 0], list(setup_b) + [e for w, e in cross if w == 1]]
    a = c09.Driver(im, [addr_a, s0, ev[0]])
    steps = [[], []]
    touched = []           # (index in cross, who acted, what changed on the other connection)
    a.start()
    drv = [a, None]
    init = [list(a.fired), None]

    def one(w, i, e):
        d = drv[w]
        marks = (len(d.fired), len(d.done), len(d.ran), len(d.objdone))
        d.raised = False
        try:
            d.apply(i, e)
        except Exception as ex:
            d.faults.append('event %d: %s: %s' % (i, type(ex).__name__, ex))
        steps[w].append(d.observe(marks))

    for i, e in enumerate(setup_a):
        one(0, i, e)
    s0_b = im.message.DBusMessage._nextSerial
    b = c09.Driver(im, [addr_b, s0_b, ev[1]], shared_clock=a.clock)
    a.shared_clock = a.clock
    a.others, b.others = [b], [a]
    drv[1] = b
    b.start()
    init[1] = list(b.fired)
    for i, e in enumerate(setup_b):
        one(1, i, e)
    pos = [len(setup_a), len(setup_b)]
    for k, (w, e) in enumerate(cross):
        o = drv[1 - w]
        before = (len(o.fired), len(o.done), len(o.ran), len(o.objdone))
        view0 = o.observe(before)[2:4]
        one(w, pos[w], e)
        pos[w] += 1
        after = o.observe(before)
        if after[0] or after[1] or after[4] or after[5] or after[2:4] != view0:
            touched.append([k, w, {'fired': after[0], 'completions': after[1], 'pending': [view0[0], after[2]],
                                   'timers': [view0[1], after[3]], 'callbacks': after[4], 'proxies': after[5]}])
    late = [None, None]
    d0 = [len(a.done), len(b.done)]
    try:
        a.clock.advance(100000)
    except Exception as ex:
        a.faults.append('late: %s: %s' % (type(ex).__name__, ex))
    for w in (0, 1):
        late[w] = sorted(drv[w].done[d0[w]:], key=lambda c: c[0])
    return {'s0': [s0, s0_b], 'events': ev, 'init': init, 'steps': steps, 'late': late, 'touched': touched,
            'faults': a.faults + b.faults, 'drivers': drv}


def evaluate(ctx, cases, res, im):
    from harness import c09
    saved = im.message.DBusMessage._nextSerial
    saved_reactor = im.client.reactor
    runs = []
    try:
        for c in cases:
            runs.append(run_impl(c09, im, c))
    finally:
        im.message.DBusMessage._nextSerial = saved
        im.client.reactor = saved_reactor
    lines = []
    for c, r in zip(cases, runs):
        for w, addr in ((0, c[1]), (1, c[4])):
            lines.append('(9 0 %s %d %s ())' % (common.dump([x[0] for x in addr]), r['s0'][w], common.dump(r['events'][w])))
    outs = common.run_model(lines)
    dist = res.extra.setdefault('two_connections', {'cases': 0, 'cross_events': 0, 'foreign_reply': 0, 'loss_of_one': 0})
    for k, (c, r) in enumerate(zip(cases, runs)):
        res.count(c, nontrivial=bool(c[6]))
        dist['cases'] += 1
        dist['cross_events'] += len(c[6])
        cross = c[6]
        dist['foreign_reply'] += any(e[0] == 4 and e[1][0] in (1, 2) for _, e in cross)
        dist['loss_of_one'] += any(e[0] == 4 and e[1][0] == 4 for _, e in cross)
        ok = True
        for w in (0, 1):
            o = outs[2 * k + w]
            if o == [-1]:
                raise RuntimeError('model rejected input %r' % (c,))
            msteps_raw, spec, final_phase, minit, mlate = o
            msteps = [c09.canon_model_step(ms)[0] for ms in msteps_raw]
            isteps = r['steps'][w]
            if not (r['init'][w] == minit and len(isteps) == len(msteps)
                    and all(c09.same_step(x, y) for x, y in zip(isteps, msteps))
                    and c08.same_completions(r['late'][w], sorted(mlate, key=lambda x: x[0]))):
                ok = False
                res.disagree(c, [w, r['init'][w], isteps, r['late'][w]], [w, minit, msteps, mlate])
        if r['faults']:
            res.violate(c, 'an exception escaped the library: %r' % (r['faults'],), 'exception-escaped')
        for kk, w, what in r['touched']:
            e = cross[kk][1]
            who = 'AB'[w]
            other = 'AB'[1 - w]
            if e[0] == 4 and e[1][0] in (1, 2):
                res.violate(c, 'a message received on connection %s (reply_serial %d) changed connection %s: %r'
                            % (who, e[1][1], other, what), 'reply-crossed-connections')
            elif e[0] == 4 and e[1][0] == 4:
                res.violate(c, 'the loss of connection %s changed connection %s (its calls, timers or callbacks): %r'
                            % (who, other, what), 'loss-other-connection-touched')
            else:
                res.violate(c, 'event %r of connection %s changed connection %s: %r' % (e, who, other, what),
                            'other-connection-touched')
        if not ok and not r['touched'] and not r['faults']:
            res.violate(c, 'with a second connection alive, a connection does not behave as it does alone',
                        'connection-not-isolated')
        if k % 97 == 0:
            res.sample(c)


def gen_cases(ctx, g):
    """A and B each: ready, nA / nB calls in flight (with and without deadline), a callback on the connection, an
    explicit proxy with a callback.  Cross events: replies and error replies on one connection carrying a serial that is
    pending on the other, the loss of either, expiries, then the genuine replies."""
    rng = ctx.rng
    c09_ret = lambda s, m: [4, [1, s, m]]
    c09_err = lambda s, n, m: [4, [2, s, n, m]]
    for na in (1, 2):
        for nb in (0, 1, 2):
            for dls in ((1, 0), (0, 1), (1, 1)):
                for variant in range(ctx.n(6, 30)):
                    s0 = rng.choice([1, 5, 40, 1000])
                    addr_a = [g.addr_entry(rng.choice([0, 1, 2]))]
                    addr_b = [g.addr_entry(rng.choice([0, 1, 2]))]
                    setup_a = [[1], [2], c09_ret(s0, [['s'], [':1.42']]), [6, [], 11], [5, 0, 1], [6, [0], 12]]
                    ser_a = []
                    serial = s0 + 1
                    for j in range(na):
                        setup_a.append([4, [0, 0, [rng.choice([2, 5, 30])] if dls[j % 2] else [], []]])
                        ser_a.append(serial)
                        serial += 1
                    hello_b = serial
                    serial += 1
                    setup_b = [[1], [2], c09_ret(hello_b, [['s'], [':1.43']]), [6, [], 21], [5, 0, 2], [6, [0], 22]]
                    ser_b = []
                    for j in range(nb):
                        setup_b.append([4, [0, 0, [rng.choice([2, 5, 30])] if dls[(j + 1) % 2] else [], []]])
                        ser_b.append(serial)
                        serial += 1
                    menu = []
                    for s in ser_a:
                        menu += [[1, c09_ret(s, rng.choice(c08.REPLIES))], [1, c09_err(s, 'org.x.Err', [['s'], ['no']])],
                                 [1, [4, [3, s]]]]
                    for s in ser_b:
                        menu += [[0, c09_ret(s, rng.choice(c08.REPLIES))], [0, [4, [3, s]]]]
                    menu += [[1, [4, [4, 2]]], [0, [4, [4, 3]]], [1, c09_ret(s0, [['s'], ['x']])],
                             [0, c09_ret(hello_b, [['s'], ['x']])]]
                    cross = [rng.choice(menu) for _ in range(rng.randrange(1, 4))]
                    if variant % 3 == 0:
                        cross = [[1, c09_ret(ser_a[0], c08.REPLIES[2])]] + cross
                    elif variant % 3 == 1:
                        cross = [[1, [4, [4, 2]]]] + cross
                    # the genuine replies afterwards: what is still pending must still complete normally
                    cross += [[0, c09_ret(s, c08.REPLIES[3])] for s in ser_a] + \
                             [[1, c09_ret(s, c08.REPLIES[2])] for s in ser_b]
                    cross += [[0, [4, [4, 1]]]] if variant % 2 else []
                    yield ['two', addr_a, s0, setup_a, addr_b, setup_b, cross]
