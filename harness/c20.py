"""C20: file descriptors stay attached to the message that carried them.

Implementation under test: txdbus.protocol.BasicDBusProtocol (fileDescriptorReceived, dataReceived ->
rawDBusMessageReceived, sendMessage), txdbus.message (parseMessage, MethodCallMessage with oobFDs),
txdbus.client.DBusClientConnection.callRemote.  Descriptors are plain integers that are never opened,
closed or duplicated (the code under test only stores and forwards them).

case kinds
  recv : a sequence of wire messages, each with the descriptors accompanying it (described structurally; the
         bytes are the specification encoding msg_enc, either byte order, computed by the extracted spec), and a
         plan of events  ['fd']  (the next descriptor arrives) / ['rd', n] (the next n bytes arrive).
         Run on a real BasicDBusProtocol subclass in authenticated state.
         Compared: every message object handed to the four callbacks (type = which callback, serial, flags,
         header attributes, body with the descriptors resolved), the queue _receivedFDs and the unframed bytes
         afterwards, whether an exception escaped dataReceived (after which nothing more is fed, as Twisted
         drops the connection).
         Correspondence: against Model/FdFraming.v run_fd (always).
         Oracle: when the case satisfies the property's hypotheses - every message well typed and declaring
         exactly its descriptors (generator flag 'ok'), events in stream order (decided by the extracted spec,
         stream_order) - against Spec/FdSpec.v [expected].
  hs   : the same from the START of the connection: the REAL line phase of BasicDBusProtocol.dataReceived with a
         scripted authenticator (harness/c04.py's ScriptAuth / FakeTransport, server side with the NUL byte and
         client side), the handshake lines followed by the messages in one stream, reads cut anywhere (inside the
         handshake, between CR and LF of the last line, message bytes pipelined in the read that completes
         authentication), descriptors arriving before / in the same read as / after the line that completes
         authentication.  Correspondence: Model/FdFraming.v run_start.  Oracle (hypotheses as for recv, decided
         by stream_order_hs): Spec/FdSpec.v expected_hs plus the handshake events of C04's stream semantics.
  raw  : the same with literal bytes (truncated, corrupted, concatenated garbage): correspondence only.
  send : a method call whose body has UNIX_FD arguments anywhere outside variants (arrays, structs, dict
         values), sent through MethodCallMessage(..., oobFDs=[]) + sendMessage or through
         DBusClientConnection.callRemote; observed: the sequence of transport.sendFileDescriptor /
         transport.write calls and the serial counter.  Correspondence: Model/FdFraming.v call_remote.
         Oracle: Spec/FdSpec.v send_spec (descriptors in argument order, then the specification encoding of
         the message with UNIX_FDS = their number).
  sendseq : a HISTORY of transmissions: 1-3 method-call message objects (built once each, oobFDs=[]) and a plan
         [[message, connection] ...] of sendMessage calls over 1-2 connections, in which a message object may be
         transmitted several times (a retry, the same call issued on a second connection) and transmissions of
         different messages interleave.  Observed: per connection the sequence of transport.sendFileDescriptor /
         transport.write calls.  Correspondence: Model/FdFraming.v call_remote per message (sendMessage is a
         function of the message alone), concatenated along the plan.  Oracle: Spec/FdSpec.v send_spec of the
         message for EVERY transmission ("the sender transmits a message's descriptors in argument order ahead
         of its bytes"), concatenated along the plan.
"""
import itertools

from harness import common
from harness import marshal_common as mc

ASSUMPTIONS = [
    'descriptors are modelled as opaque values; the harness uses distinct plain integers that are never opened or closed',
    'recv cases put the connection in authenticated state directly (_authenticated = True, _receivedFDs = []); hs cases run makeConnection and the real line phase of dataReceived with a scripted authenticator (harness/c04.py), what the authenticator writes is not compared (C06/C07)',
    'an exception escaping dataReceived is treated as the connection being dropped: no further event is delivered (Twisted reactor contract)',
    'the arrival discipline (descriptors in sending order, each delivered by fileDescriptorReceived before the dataReceived carrying the final byte of its message) is the hypothesis named in the property; how the kernel / Twisted attach descriptors to bytes (one per write) is below the observation point',
    'the four message callbacks are passive observers (they do not raise and do not touch the queue)',
    'DBusMessage._nextSerial is read before every send and given to the model',
    'sendseq: every transmission of a message object is a transmission of that message in the property\'s sense (a message '
    'object is an immutable value once built: its serial, bytes and descriptors are fixed at construction), so each one must '
    'put the message\'s descriptors, in argument order, ahead of its bytes; descriptor values differ between the messages of a history',
    'Python nesting recursion is the model\'s fuel (never exhausted on the generated sizes)',
]

FIELD_TY = {1: 'o', 2: 's', 3: 's', 4: 's', 5: 'u', 6: 's', 7: 's', 8: 'g', 9: 'u'}
ATTR = {1: 'path', 2: 'interface', 3: 'member', 4: 'error_name', 5: 'reply_serial', 6: 'destination', 7: 'sender',
        8: 'signature', 9: 'unix_fds'}
CODE = {v: k for k, v in ATTR.items()}
REQ = {1: [1, 3], 2: [5], 3: [4, 5], 4: [1, 3, 2]}
VAL = {1: ['/a', '/org/x/Y', '/'], 2: ['a.b', 'org.x.I'], 3: ['M', 'Get'], 4: ['a.E', 'org.x.Error.F'],
       5: [1, 7, 2**32 - 1], 6: [':1.5', 'org.x'], 7: [':1.7', 'org.freedesktop.DBus']}


# ----------------------------------------------------------------------------------------------
# messages

def fd_body(rng, nfds, depth=2, variant_fd=False):
    """a typed body with exactly nfds UNIX_FD leaves numbered 0.. in argument order (None if nfds == 0 and the
    coin says no body).  Returns {'ts','ws'}."""
    if nfds == 0:
        if rng.random() < 0.4:
            return None
        nt = rng.choice([1, 2])
        ts = [mc.gen_type(rng, rng.choice([0, 1]), allow_fd=False) for _ in range(nt)]
        return {'ts': ts, 'ws': [mc.gen_w(rng, t, 1, mc.FdCounter()) for t in ts]}
    for _ in range(200):
        nt = rng.choice([1, 1, 2, 3])
        ts, ws = [], []
        fdc = mc.FdCounter()
        for _ in range(nt):
            r = rng.random()
            if variant_fd and r < 0.08:
                # a descriptor inside a variant: only a foreign sender can produce it
                ts.append('v')
                ws.append({'vt': 'h', 'w': fdc.n})
                fdc.n += 1
                continue
            if r < 0.35:
                t = 'h'
            elif r < 0.5:
                t = ['a', 'h']
            elif r < 0.6:
                t = ['(', [rng.choice('hsu'), 'h']]
            elif r < 0.7:
                t = ['a', ['{', 's', 'h']]
            elif r < 0.8:
                t = mc.gen_type(rng, depth, allow_fd=True, allow_variant=True)
            else:
                t = mc.gen_type(rng, 1, allow_fd=False)
            ts.append(t)
            ws.append(mc.gen_w(rng, t, depth, fdc))
        if fdc.n == nfds:
            return {'ts': ts, 'ws': ws}
    # fall back: nfds plain arguments
    return {'ts': ['h'] * nfds, 'ws': list(range(nfds))}


def gen_msg(rng, nfds, idx, serial, le=None):
    """a conformant message with nfds descriptors; descriptor values are distinct integers"""
    mt = rng.choice([1, 1, 1, 2, 3, 4])
    fields = [[c, FIELD_TY[c], rng.choice(VAL[c])] for c in REQ[mt]]
    if rng.random() < 0.3:
        fields.append([6, 's', rng.choice(VAL[6])])
    if rng.random() < 0.3:
        fields.append([7, 's', rng.choice(VAL[7])])
    body = fd_body(rng, nfds, variant_fd=True)
    if body is not None:
        fields.append([8, 'g', ''.join(mc.show(t) for t in body['ts'])])
    if nfds or rng.random() < 0.1:
        fields.append([9, 'u', nfds])
    if rng.random() < 0.2:
        fields.append([rng.choice([0, 10, 42, 200]), rng.choice('uys'), 3])   # unknown codes
        if fields[-1][1] == 's':
            fields[-1][2] = 'zz'
    rng.shuffle(fields)
    return {'le': rng.random() < 0.7 if le is None else le, 'mt': mt, 'flags': rng.choice([0, 0, 1, 2, 3]),
            'serial': serial, 'fields': fields, 'body': body,
            'fds': [1000 * (idx + 1) + j for j in range(nfds)], 'ok': True}


def simple_msg(nfds, idx, serial, sig=None, idxs=None, declared='auto', mt=1, le=True, fds=None):
    """method call / return / ... with a body of plain 'h' arguments (indices idxs), explicit control of
    the UNIX_FDS field"""
    idxs = list(range(nfds)) if idxs is None else idxs
    fields = [[c, FIELD_TY[c], VAL[c][0]] for c in REQ[mt]]
    body = None
    if idxs:
        body = {'ts': ['h'] * len(idxs), 'ws': idxs}
        fields.append([8, 'g', 'h' * len(idxs)])
    if declared == 'auto':
        if nfds:
            fields.append([9, 'u', nfds])
    elif declared is not None:
        fields.append([9, declared[0], declared[1]])
    fds = [1000 * (idx + 1) + j for j in range(nfds)] if fds is None else fds
    if declared == 'auto':
        ok = True
    elif declared is None:
        ok = len(fds) == 0
    else:
        ok = declared[0] == 'u' and declared[1] == len(fds)
    return {'le': le, 'mt': mt, 'flags': 0, 'serial': serial, 'fields': fields, 'body': body, 'fds': fds,
            'ok': ok}


def msg_sexp(m):
    fs = [[code, mc.t_sexp(t), w_any(t, w)] for code, t, w in m['fields']]
    body = m['body']
    tss = [mc.t_sexp(t) for t in body['ts']] if body else []
    wss = [mc.w_sexp(t, w) for t, w in zip(body['ts'], body['ws'])] if body else []
    return [1 if m['le'] else 0, m['mt'], m['flags'], m['serial'], fs, tss, wss, [[0, v] for v in m['fds']]]


def w_any(t, w):
    return mc.w_sexp(t, w)


# ----------------------------------------------------------------------------------------------
# event plans

def deadlines(lens, nfds, reads):
    """for every descriptor (in sending order) the index of the read that carries the final byte of its
    message (len(reads) if that byte is not read at all)"""
    ends, pos = [], 0
    for n in reads:
        pos += n
        ends.append(pos)
    out, off = [], 0
    for ln, k in zip(lens, nfds):
        off += ln
        r = next((i for i, e in enumerate(ends) if e >= off), len(reads))
        out.extend([r] * k)
    return out


def plans_for(lens, nfds, reads, limit=None, rng=None):
    """all (or a random sample of) consistent interleavings for the given reads: descriptor j is placed in a
    slot s_j (before read s_j), slots non-decreasing, s_j <= deadline_j"""
    dl = deadlines(lens, nfds, reads)
    K = len(dl)
    m = len(reads)

    def rec(j, lo):
        if j == K:
            yield []
            return
        for s in range(lo, min(dl[j], m) + 1):
            for rest in rec(j + 1, s):
                yield [s] + rest

    def build(slots):
        ev, j = [], 0
        for s in range(m + 1):
            while j < K and slots[j] == s:
                ev.append(['fd'])
                j += 1
            if s < m:
                ev.append(['rd', reads[s]])
        return ev

    if limit is None:
        for slots in rec(0, 0):
            yield build(slots)
    else:
        for _ in range(limit):
            slots, lo = [], 0
            for j in range(K):
                s = rng.randint(lo, min(dl[j], m))
                # bias towards early arrival of later messages' descriptors and towards the deadline
                r = rng.random()
                if r < 0.3:
                    s = lo
                elif r < 0.5:
                    s = min(dl[j], m)
                slots.append(s)
                lo = s
            yield build(slots)


def cut_reads(total, cuts):
    cuts = sorted(set(c for c in cuts if 0 < c < total))
    pts = [0] + cuts + [total]
    return [b - a for a, b in zip(pts, pts[1:])]


def boundary_cuts(lens):
    """candidate cut positions: inside each message's fixed header, just before its final byte, its end"""
    out, off = [], 0
    for ln in lens:
        out.append([off + 5, off + ln - 1, off + ln])
        off += ln
    return out


# ----------------------------------------------------------------------------------------------
# case generation

def structured_sequences(ctx):
    """(label, [msg ...]) - descriptor counts per message"""
    rng = ctx.rng
    shapes = [[1], [2], [3], [0, 1], [1, 0], [1, 1], [2, 1], [0, 2, 0], [1, 0, 1], [2, 0, 1], [3, 1],
              [1, 2, 3], [2, 0, 1, 1], [0, 0, 3, 1], [1, 1, 1, 1], [3, 3], [0, 1, 0, 2]]
    for sh in shapes:
        yield sh, [gen_msg(rng, k, i, 10 + i) for i, k in enumerate(sh)]


def hostile_sequences():
    """messages outside or at the edge of the hypotheses"""
    S = simple_msg
    yield 'idx-beyond-own-count', [S(0, 0, 1, idxs=[0]), S(1, 1, 2)], True
    yield 'idx-beyond-own-count-2', [S(1, 0, 1, idxs=[0, 1, 2]), S(2, 1, 2)], True
    yield 'declared-0-idx-0', [S(0, 0, 1, idxs=[0], declared=('u', 0)), S(1, 1, 2)], True
    yield 'idx-far', [S(1, 0, 1, idxs=[77, 0])], True
    yield 'idx-huge', [dict(S(1, 0, 1, idxs=[2**32 - 1, 0]), ok=False)], False
    yield 'declared-without-body', [S(2, 0, 1, idxs=[]), S(1, 1, 2)], True
    yield 'declared-more-than-attached', [S(1, 0, 1, idxs=[0, 1], declared=('u', 2)), S(1, 1, 2)], False
    yield 'declared-less-than-attached', [S(2, 0, 1, idxs=[0, 1], declared=('u', 1)), S(1, 1, 2)], False
    yield 'declared-none-attached-one', [S(1, 0, 1, idxs=[0], declared=None), S(1, 1, 2)], False
    yield 'declared-negative', [S(2, 0, 1, idxs=[0], declared=('i', -1)), S(1, 1, 2)], False
    yield 'declared-string', [S(1, 0, 1, idxs=[0], declared=('s', 'x')), S(1, 1, 2)], False
    yield 'declared-bool', [S(1, 0, 1, idxs=[0], declared=('b', True)), S(1, 1, 2)], False
    yield 'declared-double', [S(1, 0, 1, idxs=[0], declared=('d', 0x3ff0000000000000)), S(1, 1, 2)], False
    yield 'declared-as-fd', [S(1, 0, 1, idxs=[0], declared=('h', 0)), S(1, 1, 2)], False
    yield 'reply-error-signal', [S(1, 0, 1, mt=2), S(2, 1, 2, mt=3), S(1, 2, 3, mt=4)], True
    yield 'big-endian', [S(2, 0, 1, idxs=[1, 0], le=False), S(1, 1, 2, le=False)], True
    yield 'same-index-twice', [S(1, 0, 1, idxs=[0, 0]), S(1, 1, 2)], True


def all_plans_small(lens, nfds, ctx, cap):
    cand = boundary_cuts(lens)
    flat = [c for cs in cand for c in cs]
    total = sum(lens)
    subsets = []
    n = len(flat)
    if n <= 9:
        for mask in range(1 << n):
            subsets.append([flat[i] for i in range(n) if mask >> i & 1])
    else:
        # message boundaries in all combinations, plus random extra cuts
        ends = [cs[2] for cs in cand]
        for mask in range(1 << len(ends)):
            base = [ends[i] for i in range(len(ends)) if mask >> i & 1]
            subsets.append(base)
            subsets.append(base + ctx.rng.sample(flat, 3))
    seen = set()
    out = []
    for cuts in subsets:
        reads = tuple(cut_reads(total, cuts))
        if reads in seen:
            continue
        seen.add(reads)
        for ev in plans_for(lens, nfds, list(reads)):
            out.append(ev)
    if len(out) > cap:
        keep = out[:: max(1, len(out) // cap)][:cap]
        return keep, False
    return out, True


def gen_cases(ctx):
    """yields partially built cases; 'plan' = 'all' | 'random' | explicit events is expanded in expand() once
    the wire lengths are known"""
    rng = ctx.rng
    for label, msgs, inhyp in hostile_sequences():
        yield {'kind': 'recv', 'label': label, 'msgs': msgs, 'plan': 'all', 'cap': ctx.n(120, 4000)}
    for sh, msgs in structured_sequences(ctx):
        yield {'kind': 'recv', 'label': 'seq' + ''.join(map(str, sh)), 'msgs': msgs,
               'plan': 'all' if len(sh) <= 3 else 'random', 'cap': ctx.n(320, 4000), 'nrandom': ctx.n(40, 600)}
    for i in range(ctx.n(150, 4000)):
        n = rng.choice([1, 2, 2, 3, 3, 4])
        sh = [rng.choice([0, 0, 1, 1, 2, 3]) for _ in range(n)]
        msgs = [gen_msg(rng, k, j, 100 + j) for j, k in enumerate(sh)]
        yield {'kind': 'recv', 'label': 'rnd', 'msgs': msgs, 'plan': 'random', 'nrandom': ctx.n(6, 12)}
    # many descriptors pending at once: 18 and 40 one-descriptor messages, and one message carrying 20
    for count in (18, 40):
        yield {'kind': 'recv', 'label': 'pending%d' % count, 'msgs': [gen_msg(rng, 1, j, 400 + j) for j in range(count)],
               'plan': 'fds-first'}
    yield {'kind': 'recv', 'label': 'one-with-20', 'msgs': [gen_msg(rng, 20, 0, 500), gen_msg(rng, 1, 1, 501)], 'plan': 'fds-first'}
    # sequences that break the arrival discipline or the declared counts: correspondence only
    for i in range(ctx.n(60, 1500)):
        n = rng.choice([2, 3])
        msgs = []
        for j in range(n):
            k = rng.choice([0, 1, 2])
            r = rng.random()
            if r < 0.5:
                msgs.append(simple_msg(k, j, 200 + j, idxs=[rng.choice([0, 1, 2, 5]) for _ in range(rng.choice([0, 1, 2]))],
                                       declared=rng.choice(['auto', None, ('u', rng.choice([0, 1, 2, 3])),
                                                            ('i', rng.choice([-2, -1, 1])), ('y', 1), ('s', 'q')]),
                                       mt=rng.choice([1, 2, 3, 4]), le=rng.random() < 0.7))
            else:
                msgs.append(gen_msg(rng, k, j, 200 + j))
        yield {'kind': 'recv', 'label': 'wild', 'msgs': msgs, 'plan': 'wild', 'nrandom': ctx.n(4, 10)}
    for i in range(ctx.n(60, 1500)):
        n = rng.choice([1, 2, 3])
        msgs = [gen_msg(rng, rng.choice([0, 1, 2]), j, 300 + j) for j in range(n)]
        yield {'kind': 'rawgen', 'label': 'raw', 'msgs': msgs, 'nrandom': ctx.n(3, 6)}
    for c in gen_hs_cases(ctx):
        yield c
    for i in range(ctx.n(700, 20000)):
        yield gen_send(rng, i)
    for c in gen_sendseq(ctx):
        yield c
    # the same descriptor given for several UNIX_FD arguments of one call
    for via in ('sendMessage', 'callRemote'):
        for ts, ws, fdv in ((['h', 'h'], [0, 1], [5, 5]),
                            (['s', 'h', 'h', 'h'], ['x', 0, 1, 2], [5, 7, 7]),
                            ([['a', 'h']], [[0, 1, 2]], [7, 7, 7]),
                            (['h', ['a', 'h']], [0, [1, 2]], [9, 9, 4]),
                            ([['a', ['{', 's', 'h']]], [[['a', 0], ['b', 1]]], [3, 3])):
            yield {'kind': 'send', 'fields': {'path': '/a', 'member': 'M'}, 'er': True, 'au': True, 'body': {'ts': ts, 'ws': ws},
                   'shape': 7, 'via': via, 'nfds': len(fdv), 'fd_values': fdv}


def gen_hs_cases(ctx):
    from harness import c04
    rng = ctx.rng
    g = c04.Gen(rng)
    # systematic: every consistent interleaving over the cut candidates of the handshake and the messages
    for client in (0, 1):
        for sh in ([1], [2], [1, 1], [0, 2], [2, 1]):
            lines, auth = g.handshake(client, short=True)
            msgs = [gen_msg(rng, k, j, 400 + j) for j, k in enumerate(sh)]
            yield {'kind': 'hsgen', 'label': 'hs' + ''.join(map(str, sh)), 'client': client, 'auth': auth,
                   'lines': lines, 'msgs': msgs, 'plan': 'all', 'cap': ctx.n(150, 3000)}
    for i in range(ctx.n(120, 3000)):
        client = rng.choice([0, 1])
        lines, auth = g.handshake(client, short=rng.random() < 0.5)
        n = rng.choice([1, 2, 2, 3])
        msgs = [gen_msg(rng, rng.choice([0, 1, 1, 2, 3]), j, 500 + j) for j in range(n)]
        yield {'kind': 'hsgen', 'label': 'hsrnd', 'client': client, 'auth': auth, 'lines': lines, 'msgs': msgs,
               'plan': 'random', 'nrandom': ctx.n(6, 12)}
    # handshakes that fail or never complete, with descriptors queued: correspondence only
    for i in range(ctx.n(30, 600)):
        client = rng.choice([0, 1])
        lines, auth = g.handshake(client, short=True)
        bad = rng.choice([2, 3, 0])
        auth = [1, [0] * (len(lines) - 1) + [bad]]
        msgs = [gen_msg(rng, rng.choice([1, 2]), 0, 600)]
        yield {'kind': 'hsgen', 'label': 'hsfail', 'client': client, 'auth': auth, 'lines': lines,
               'msgs': [dict(m, ok=False) for m in msgs], 'plan': 'random', 'nrandom': ctx.n(3, 6)}


def hs_bytes(client, lines):
    return (b'' if client else b'\0') + b''.join(bytes(l) + b'\r\n' for l in lines)


def expand_hs(ctx, c, wires):
    rng = ctx.rng
    hs = hs_bytes(c['client'], c['lines'])
    lens = [len(hs)] + [len(w) for w in wires]
    nfds = [0] + [len(m['fds']) for m in c['msgs']]
    total = sum(lens)
    out = []

    def mk(ev):
        return {'kind': 'hs', 'label': c['label'], 'client': c['client'], 'auth': c['auth'], 'lines': c['lines'],
                'msgs': c['msgs'], 'events': ev}

    if c['plan'] == 'all':
        evs, complete = all_plans_small(lens, nfds, ctx, c['cap'])
        for ev in evs:
            out.append(mk(ev))
        for ev in evs[:: max(1, len(evs) // 10)]:
            if len(ev) > 1:
                out.append(mk(ev[:rng.randrange(1, len(ev))]))
        return out, complete
    for _ in range(c['nrandom']):
        ncut = rng.choice([0, 1, 2, 3, 5, 8])
        cuts = [rng.randrange(1, total) for _ in range(ncut)] if total > 1 else []
        r = rng.random()
        if r < 0.5:
            # the read that completes the handshake also carries message bytes
            cuts = [x for x in cuts if not (lens[0] - 4 <= x <= lens[0] + 8)]
        elif r < 0.7:
            cuts.append(lens[0])
        elif r < 0.8:
            cuts.append(lens[0] - 1)                    # between CR and LF of the last line
        reads = cut_reads(total, cuts)
        if rng.random() < 0.15 and len(reads) > 1:
            reads.insert(rng.randrange(1, len(reads) + 1), 0)     # an empty read, never the first
        ev = next(plans_for(lens, nfds, reads, limit=1, rng=rng))
        if rng.random() < 0.2 and len(ev) > 1:
            ev = ev[:rng.randrange(1, len(ev))]
        out.append(mk(ev))
    return out, False


def gen_send(rng, i):
    k = rng.choice([0, 1, 1, 2, 2, 3, 3, 4])
    body = fd_body(rng, k, depth=rng.choice([1, 2, 2, 3]))
    fields = {'path': rng.choice(VAL[1][:2]), 'member': rng.choice(VAL[3])}
    if rng.random() < 0.5:
        fields['interface'] = rng.choice(VAL[2])
    if rng.random() < 0.5:
        fields['destination'] = rng.choice(VAL[6])
    return {'kind': 'send', 'fields': fields, 'er': rng.random() < 0.6, 'au': rng.random() < 0.7, 'body': body,
            'shape': rng.randrange(1 << 30), 'via': rng.choice(['sendMessage', 'callRemote']), 'nfds': k}


def gen_sendseq(ctx):
    """histories of transmissions (see the module docstring)"""
    rng = ctx.rng

    def msg(k=None):
        m = gen_send(rng, 0)
        if k is not None:
            m['nfds'] = k
            m['body'] = fd_body(rng, k, depth=rng.choice([1, 2]))
        del m['kind'], m['via']
        return m

    def case(label, msgs, plan):
        return {'kind': 'sendseq', 'label': label, 'msgs': msgs, 'plan': plan,
                'nconn': 1 + max(c for _, c in plan)}

    # directed: one message with 1..3 descriptors transmitted twice / three times, on one and on two connections,
    # alone and with another message before, between and after
    for k in (1, 2, 3):
        for plan in ([[0, 0], [0, 0]], [[0, 0], [0, 1]], [[0, 0], [0, 0], [0, 0]], [[0, 0], [0, 1], [0, 0]]):
            yield case('again%d' % k, [msg(k)], plan)
        for k2 in (0, 1, 2):
            for plan in ([[0, 0], [1, 0], [0, 0]], [[0, 0], [0, 0], [1, 0]], [[1, 0], [0, 0], [0, 0]],
                         [[0, 0], [1, 0], [1, 0], [0, 0]], [[0, 0], [1, 1], [0, 1], [1, 0]]):
                yield case('again%d-other%d' % (k, k2), [msg(k), msg(k2)], plan)
    for _ in range(ctx.n(150, 4000)):
        n = rng.choice([1, 2, 2, 3])
        msgs = [msg(rng.choice([None, 1, 2, 3])) for _ in range(n)]
        nconn = rng.choice([1, 1, 2])
        plan = [[rng.randrange(n), rng.randrange(nconn)] for _ in range(rng.randrange(1, 7))]
        if rng.random() < 0.7:
            # at least one message goes out again
            plan.insert(rng.randrange(len(plan) + 1), [plan[0][0], rng.randrange(nconn)])
        yield case('rnd', msgs, plan)


def expand(ctx, c, wires):
    """turn a partially built recv case into concrete cases (events fixed)"""
    rng = ctx.rng
    msgs = c['msgs']
    lens = [len(w) for w in wires]
    nfds = [len(m['fds']) for m in msgs]
    total = sum(lens)
    out = []

    def mk(ev, exhaustive=False):
        return {'kind': 'recv', 'label': c['label'], 'msgs': msgs, 'events': ev}

    if c.get('kind') == 'rawgen':
        stream = bytearray(b''.join(wires))
        for _ in range(c['nrandom']):
            s = bytearray(stream)
            r = rng.random()
            if r < 0.4 and s:
                for _ in range(rng.choice([1, 2, 3])):
                    s[rng.randrange(len(s))] = rng.randrange(256)
            elif r < 0.6:
                s = s[:rng.randrange(len(s) + 1)] + bytes(rng.randrange(256) for _ in range(rng.randrange(40)))
            elif r < 0.8 and len(s) > 20:
                a = rng.randrange(len(s))
                s = s[:a] + s[a + rng.randrange(1, 9):]
            ev, pos = [], 0
            fds = [v for m in msgs for v in m['fds']]
            while pos < len(s) or fds:
                if fds and (pos >= len(s) or rng.random() < 0.4):
                    ev.append(['fd', fds.pop(0)])
                else:
                    n = rng.choice([1, 7, 16, 40, 200, len(s)])
                    ev.append(['rd', bytes(s[pos:pos + n])])
                    pos += n
            out.append({'kind': 'raw', 'label': c['label'], 'events': ev})
        return out, False

    if c['plan'] == 'fds-first':
        # EVERY descriptor of the whole sequence queued before the first byte (later messages' descriptors arbitrarily
        # early is inside the arrival discipline): many descriptors pending at once
        K = sum(nfds)
        for reads in ([total], list(lens), cut_reads(total, [rng.randrange(1, total) for _ in range(5)])):
            out.append(mk([['fd']] * K + [['rd', n] for n in reads]))
        return out, False
    if c['plan'] == 'all':
        evs, complete = all_plans_small(lens, nfds, ctx, c['cap'])
        for ev in evs:
            out.append(mk(ev))
            # a prefix of a consistent history is consistent
        for ev in evs[:: max(1, len(evs) // 10)]:
            if len(ev) > 1:
                out.append(mk(ev[:rng.randrange(1, len(ev))]))
        return out, complete
    if c['plan'] == 'random':
        for _ in range(c['nrandom']):
            ncut = rng.choice([0, 1, 2, 3, 5, 8])
            cuts = [rng.randrange(1, total) for _ in range(ncut)] if total > 1 else []
            if rng.random() < 0.4:
                cuts += [cs[rng.randrange(3)] for cs in boundary_cuts(lens) if rng.random() < 0.7]
            reads = cut_reads(total, cuts)
            if rng.random() < 0.15:
                reads.insert(rng.randrange(len(reads) + 1), 0)          # an empty read
            ev = next(plans_for(lens, nfds, reads, limit=1, rng=rng))
            if rng.random() < 0.2 and len(ev) > 1:
                ev = ev[:rng.randrange(1, len(ev))]
            out.append(mk(ev))
        if rng.random() < 0.3:
            # one byte at a time
            reads = [1] * total
            out.append(mk(next(plans_for(lens, nfds, reads, limit=1, rng=rng))))
        return out, False
    # wild: descriptors anywhere (possibly late, possibly missing)
    for _ in range(c['nrandom']):
        K = sum(nfds)
        ncut = rng.choice([0, 1, 2, 4])
        reads = cut_reads(total, [rng.randrange(1, total) for _ in range(ncut)] if total > 1 else [])
        ev = [['rd', n] for n in reads]
        nf = rng.choice([K, K, max(0, K - 1), K + 1])
        for _ in range(nf):
            ev.insert(rng.randrange(len(ev) + 1), ['fd'])
        out.append(mk(ev))
    return out, False


# ----------------------------------------------------------------------------------------------
# running the implementation

def obs_parsed(m, kind):
    attrs = {}
    for code, a in ATTR.items():
        if a in m.__dict__:
            attrs[code] = mc.pv_form(m.__dict__[a])
    body = m.__dict__.get('body', None)
    return [kind, m.serial, 1 if m.expectReply else 0, 1 if m.autoStart else 0,
            attrs, None if body is None else [mc.pv_form(x) for x in body]]


def make_protocol():
    from txdbus import protocol
    from twisted.internet import interfaces
    from zope.interface import implementer

    @implementer(interfaces.IUNIXTransport)
    class FakeTransport(object):
        disconnecting = False

        def __init__(self):
            self.calls = []

        def write(self, data):
            self.calls.append([1, bytes(data)])

        def writeSequence(self, seq):
            self.calls.append([1, b''.join(seq)])

        def sendFileDescriptor(self, fd):
            self.calls.append([0, fd])

        def loseConnection(self):
            self.calls.append([2])
            self.disconnecting = True

    class P(protocol.BasicDBusProtocol):
        def __init__(self):
            self.transport = FakeTransport()
            self._receivedFDs = []
            self._authenticated = True
            self.got = []

        def methodCallReceived(self, m):
            self.got.append(obs_parsed(m, 1))

        def methodReturnReceived(self, m):
            self.got.append(obs_parsed(m, 2))

        def errorReceived(self, m):
            self.got.append(obs_parsed(m, 3))

        def signalReceived(self, m):
            self.got.append(obs_parsed(m, 4))

    return P, FakeTransport


def concrete_events(case, wires):
    """[[0, fd] | [1, bytes]] from the case's plan"""
    if case['kind'] == 'raw':
        return [[0, e[1]] if e[0] == 'fd' else [1, bytes(e[1])] for e in case['events']]
    stream = b''.join(wires)
    fds = [v for m in case['msgs'] for v in m['fds']]
    out, pos, j = [], 0, 0
    for e in case['events']:
        if e[0] == 'fd':
            # beyond the descriptors that were sent: a stray one
            out.append([0, fds[j] if j < len(fds) else 9000 + j])
            j += 1
        else:
            out.append([1, stream[pos:pos + e[1]]])
            pos += e[1]
    return out


def run_impl_recv(P, events):
    p = P()
    dropped = False
    for e in events:
        if e[0] == 0:
            try:
                p.fileDescriptorReceived(e[1])
            except Exception:
                # the receiver has nothing to do with a descriptor but queue it (descriptors are opaque integers
                # here; code that closes or inspects one raises): observed as a dropped connection
                dropped = True
                break
        else:
            try:
                p.dataReceived(e[1])
            except Exception:
                dropped = True
                break
    outs = [[1] + g for g in p.got] + ([[0]] if dropped else [])
    closed = p.transport.disconnecting
    return [outs, [mc.pv_form(v) for v in p._receivedFDs], None if (dropped or closed) else bytes(p._buffer)]


class HsImpl:
    def __init__(self):
        from harness import c04
        self.base = c04.Impl()
        protocol = self.base.protocol

        class P(protocol.BasicDBusProtocol):
            def connectionAuthenticated(self):
                self.log.append([1])

            def methodCallReceived(self, m):
                self.log.append([9] + obs_parsed(m, 1))

            def methodReturnReceived(self, m):
                self.log.append([9] + obs_parsed(m, 2))

            def errorReceived(self, m):
                self.log.append([9] + obs_parsed(m, 3))

            def signalReceived(self, m):
                self.log.append([9] + obs_parsed(m, 4))

        self.P = P

    def run(self, client, auth, events):
        b = self.base
        log = []
        p = self.P()
        p.log = log
        p._client = bool(client)
        p.factory = b.Factory
        a = b.ScriptAuth(auth, log)
        p.authenticator = lambda *args: a
        t = b.FakeTransport(log)
        p.makeConnection(t)
        dropped = False
        for e in events:
            if t.disconnecting:
                break
            if e[0] == 0:
                p.fileDescriptorReceived(e[1])
            else:
                try:
                    p.dataReceived(e[1])
                except Exception as x:
                    dropped = True
                    log.append([4] if type(x).__name__ == 'ScriptCrash' else [-1])
                    break
        outs = []
        for x in log:
            if x[0] == 9:
                outs.append([1] + x[1:])
            elif x[0] == -1:
                outs.append([0])
            else:
                outs.append([2, x])
        return [outs, [mc.pv_form(v) for v in p._receivedFDs],
                None if (dropped or t.disconnecting) else bytes(p._buffer)]


def hs_events(case, wires):
    stream = hs_bytes(case['client'], case['lines']) + b''.join(wires)
    fds = [v for m in case['msgs'] for v in m['fds']]
    out, pos, j = [], 0, 0
    for e in case['events']:
        if e[0] == 'fd':
            out.append([0, fds[j] if j < len(fds) else 9000 + j])
            j += 1
        else:
            out.append([1, stream[pos:pos + e[1]]])
            pos += e[1]
    return out


def model_result(o):
    outs = []
    for x in o[0]:
        if x[0] == 1:
            attrs = {}
            for code, v in x[5]:
                attrs[code] = v
            outs.append([1, x[1], x[2], x[3], x[4], attrs, x[6][0] if x[6] else None])
        elif x[0] == 2:
            outs.append([2, list(x[1])] if len(x) > 1 else [2])
        else:
            outs.append([x[0]])
    return [outs, o[1], o[2][0] if o[2] else None]


def spec_result(o):
    seen = []
    for x in o[0]:
        attrs = {}
        for code, v in x[4]:
            attrs[code] = v
        seen.append([1, x[0], x[1], x[2], x[3], attrs, x[5][0] if x[5] else None])
    return [seen, o[1], o[2]]


def events_sexp(events):
    return [[0, [0, e[1]]] if e[0] == 0 else [1, e[1]] for e in events]


# ----------------------------------------------------------------------------------------------
# sending

def send_values(case, marshal):
    import random
    body = case['body']
    if body is None:
        return None, None
    sh = mc.Shapes(random.Random(case['shape']), marshal)
    vals = []
    for t, w in zip(body['ts'], body['ws']):
        v = sh.py(t, w)
        if v is None or mc.has_none(v):
            return None, None
        vals.append(v)
    return ''.join(mc.show(t) for t in body['ts']), vals


def run_impl_send(case, sig, vals, FakeTransport, P):
    from txdbus import message, client
    f = case['fields']
    tr = FakeTransport()
    failed = []
    if case['via'] == 'sendMessage':
        p = P()
        p.transport = tr
        try:
            m = message.MethodCallMessage(f.get('path'), f.get('member'), interface=f.get('interface'),
                                          destination=f.get('destination'), signature=sig, body=vals,
                                          expectReply=case['er'], autoStart=case['au'], oobFDs=[])
            p.sendMessage(m)
        except Exception as e:
            failed.append(type(e).__name__)
    else:
        c = client.DBusClientConnection()
        c.transport = tr
        c._pendingCalls = {}
        d = c.callRemote(f.get('path'), f.get('member'), interface=f.get('interface'),
                         destination=f.get('destination'), signature=sig, body=vals,
                         expectReply=case['er'], autoStart=case['au'])
        if not case['er']:
            d.addErrback(lambda fl: failed.append(fl.type.__name__))
        else:
            d.addErrback(lambda fl: failed.append(fl.type.__name__))
        if not tr.calls and not failed:
            failed.append('nothing-sent')
    calls = [[0, mc.pv_form(c[1])] if c[0] == 0 else [c[0], c[1]] for c in tr.calls]
    return calls, failed


def model_attrs(fields, sig):
    out = []
    for a, v in fields.items():
        out.append([CODE[a], [3, v.encode('utf-8')]])
    if sig is not None:
        out.append([8, [3, sig.encode('utf-8')]])
    return out


# ----------------------------------------------------------------------------------------------

def evaluate(ctx, cases, res):
    from txdbus import message, marshal
    P, FakeTransport = make_protocol()
    ex = res.extra
    cases = list(cases)

    def bump(k, n=1):
        ex[k] = ex.get(k, 0) + n

    # ---- phase 1: wire bytes of every message sequence (specification encoder) ----------------
    need = [c for c in cases if c['kind'] in ('recv', 'rawgen', 'hsgen', 'hs')]
    outs = common.run_model(['(20 3 %s)' % common.dump([msg_sexp(m) for m in c['msgs']]) for c in need])
    wires_of = {}
    for c, o in zip(need, outs):
        wires_of[id(c)] = [bytes(w) for w in o]

    # ---- phase 2: expand plans ------------------------------------------------------------------
    concrete = []
    all_complete = True
    for c in cases:
        if c['kind'] == 'hsgen':
            sub, complete = expand_hs(ctx, c, wires_of[id(c)])
            if c.get('plan') == 'all':
                (ex.setdefault('all_interleavings_enumerated_for', []) if complete
                 else ex.setdefault('interleavings_sampled_for', [])).append(
                    '%s-%s' % (c['label'], 'client' if c['client'] else 'server'))
            for s_ in sub:
                concrete.append((s_, wires_of[id(c)]))
        elif c['kind'] == 'hs':
            concrete.append((c, wires_of[id(c)]))
        elif c['kind'] in ('recv', 'rawgen') and 'events' not in c:
            sub, complete = expand(ctx, c, wires_of[id(c)])
            if c.get('plan') == 'all':
                if complete:
                    ex.setdefault('all_interleavings_enumerated_for', []).append(c['label'])
                else:
                    all_complete = False
                    ex.setdefault('interleavings_sampled_for', []).append(c['label'])
            for s in sub:
                concrete.append((s, wires_of[id(c)]))
        elif c['kind'] == 'recv':
            concrete.append((c, wires_of[id(c)]))
        elif c['kind'] == 'raw':
            concrete.append((c, None))
        else:
            concrete.append((c, None))
    if not all_complete:
        ex['exhaustive_plans_capped'] = True

    # ---- receiving -------------------------------------------------------------------------------
    recv = [(c, w) for c, w in concrete if c['kind'] in ('recv', 'raw')]
    evs = [concrete_events(c, w) for c, w in recv]
    mlines = ['(20 1 %s)' % common.dump(events_sexp(e)) for e in evs]
    mouts = common.run_model(mlines)
    slines, sidx = [], []
    for i, (c, w) in enumerate(recv):
        if c['kind'] == 'recv' and all(m.get('ok') for m in c['msgs']):
            sidx.append(i)
            slines.append('(20 2 %s %s)' % (common.dump([msg_sexp(m) for m in c['msgs']]), common.dump(events_sexp(evs[i]))))
    souts = dict(zip(sidx, common.run_model(slines)))
    for i, (c, w) in enumerate(recv):
        impl = run_impl_recv(P, evs[i])
        cur = model_result(mouts[i][0])
        leg = model_result(mouts[i][1])
        nontrivial = sum(1 for e in evs[i] if e[0] == 0) >= 1 and len(impl[0]) >= 1
        res.count(c, nontrivial=nontrivial)
        bump('recv_cases')
        if cur != leg:
            bump('legacy_distinguished')
        if impl != cur:
            res.disagree(c, impl, cur)
            bump('recv_disagree')
        if c['kind'] == 'raw':
            bump('raw_cases')
            continue
        hyp = all(m.get('ok') for m in c['msgs'])
        inorder = hyp and bool(souts[i][0])
        if c['label'] not in ('wild',) and hyp and not inorder and c['label'] != 'raw':
            raise RuntimeError('generator produced an event plan outside stream order: %r' % (c,))
        if hyp and inorder:
            bump('recv_oracle_cases')
            want = spec_result(souts[i][1])
            got = [impl[0], impl[1], impl[2]]
            if got != want:
                why, sig = classify_recv(got, want)
                res.violate(c, why, sig)
            if any(len(m['fds']) for m in c['msgs'][1:]) and len(impl[0]) >= 1:
                bump('recv_later_descriptors_present')
        else:
            bump('recv_outside_hypotheses')
        if i % 97 == 0:
            res.sample({'label': c['label'], 'fds': [m['fds'] for m in c['msgs']], 'events': c['events']})

    # ---- receiving from the start of the connection (real handshake phase) --------------------------
    hsc = [(c, w) for c, w in concrete if c['kind'] == 'hs']
    if hsc:
        himpl = HsImpl()
        maxl = himpl.base.maxl
        from harness import c04
        hevs = [hs_events(c, w) for c, w in hsc]
        mouts = common.run_model(['(20 6 %d %d %s %s)' % (c['client'], maxl, common.dump(c04.auth_dump(c['auth'])),
                                                        common.dump(events_sexp(e)))
                                  for (c, w), e in zip(hsc, hevs)])
        sidx = [i for i, (c, w) in enumerate(hsc) if all(m.get('ok') for m in c['msgs'])]
        souts = dict(zip(sidx, common.run_model(
            ['(20 7 %d %d %s %s %s %s)' % (hsc[i][0]['client'], maxl, common.dump(c04.auth_dump(hsc[i][0]['auth'])),
                                           common.dump(hs_bytes(hsc[i][0]['client'], hsc[i][0]['lines'])),
                                           common.dump([msg_sexp(m) for m in hsc[i][0]['msgs']]),
                                           common.dump(events_sexp(hevs[i]))) for i in sidx])))
        for i, (c, w) in enumerate(hsc):
            impl = himpl.run(c['client'], c['auth'], hevs[i])
            cur = model_result(mouts[i][0])
            nhs = len(hs_bytes(c['client'], c['lines']))
            pos, early = 0, False
            for e in hevs[i]:
                if e[0] == 0 and pos < nhs:
                    early = True
                elif e[0] == 1:
                    pos += len(e[1])
            res.count(c, nontrivial=early and any(x[0] == 1 for x in impl[0]))
            bump('hs_cases')
            if early:
                bump('hs_descriptor_before_authentication')
            if impl != cur:
                res.disagree(c, impl, cur)
                bump('hs_disagree')
            if i not in souts:
                bump('hs_outside_hypotheses')
                continue
            ok, (seen, q), hsev = souts[i]
            if not ok:
                raise RuntimeError('generator produced a handshake event plan outside stream order: %r' % (c,))
            bump('hs_oracle_cases')
            want = [[[2, list(e)] for e in hsev] + spec_result([seen, q, b''])[0], q]
            got = [impl[0], impl[1]]
            if got != want:
                why, sig = classify_recv([[x for x in got[0] if x[0] != 2], got[1], b''],
                                         [[x for x in want[0] if x[0] != 2], want[1], b''])
                if [x for x in got[0] if x[0] == 2] != [x for x in want[0] if x[0] == 2]:
                    why, sig = 'handshake events differ from the stream semantics', 'recv:handshake-events'
                elif early and sig in ('recv:descriptor-argument-not-own', 'recv:queue'):
                    why = 'a descriptor that arrived before authentication completed was lost: ' + why
                    sig = 'recv:descriptor-lost-at-authentication'
                res.violate(c, why, sig)
            if i % 53 == 0:
                res.sample({'label': c['label'], 'client': c['client'], 'lines': c['lines'],
                            'fds': [m['fds'] for m in c['msgs']], 'events': c['events']})

    # ---- sending ---------------------------------------------------------------------------------
    send = [c for c, _ in concrete if c['kind'] == 'send']
    prepared = []
    def subst_fds(v, table):
        if isinstance(v, bool):
            return v
        if isinstance(v, int):
            return table[v - 100] if 100 <= v < 100 + len(table) else v
        if isinstance(v, list):
            return [subst_fds(x, table) for x in v]
        if isinstance(v, tuple):
            return tuple(subst_fds(x, table) for x in v)
        if isinstance(v, dict):
            return {k: subst_fds(x, table) for k, x in v.items()}
        return v

    for c in send:
        sig, vals = send_values(c, marshal)
        if c['body'] is not None and vals is None:
            bump('send_nonconforming_shape_skipped')
            continue
        if c.get('fd_values') and vals is not None:
            # directed: the SAME descriptor passed for several UNIX_FD arguments of one call (stdout and stderr, say):
            # each argument still travels as its own attached descriptor, in argument order
            vals = subst_fds(vals, c['fd_values'])
        prepared.append((c, sig, vals))
    lines, slines2, obs = [], [], []
    for c, sig, vals in prepared:
        serial0 = message.DBusMessage._nextSerial
        calls, failed = run_impl_send(c, sig, vals, FakeTransport, P)
        serial1 = message.DBusMessage._nextSerial
        obs.append((calls, failed, serial0, serial1))
        body_form = [5, [mc.pv_form(v) for v in vals]] if vals is not None else [10]
        lines.append('(20 4 %d %d %s %s %d)' % (c['er'], c['au'], common.dump(model_attrs(c['fields'], sig)),
                                                common.dump(body_form), serial0))
        fields = [[CODE[a], FIELD_TY[CODE[a]], v] for a, v in sorted(c['fields'].items(), key=lambda kv: CODE[kv[0]])]
        if sig is not None:
            fields.append([8, 'g', sig])
        m = {'le': True, 'mt': 1, 'flags': (0 if c['er'] else 1) + (0 if c['au'] else 2), 'serial': serial0,
             'fields': fields, 'body': c['body'], 'fds': list(c.get('fd_values') or [100 + j for j in range(c['nfds'])])}
        slines2.append('(20 5 %s)' % common.dump(msg_sexp(m)))
    mo = common.run_model(lines)
    so = common.run_model(slines2)
    for (c, sig, vals), (calls, failed, s0, s1), o, s in zip(prepared, obs, mo, so):
        res.count(c, nontrivial=c['nfds'] >= 1)
        bump('send_cases')
        impl = ['err', s1 - s0] if failed else ['ok', calls, s1 - s0]
        model = ['ok', [[x[0], x[1]] for x in o[1]], o[2] - s0] if o[0] == 1 else ['err', o[2] - s0]
        if impl != model:
            res.disagree(c, impl, model)
        want = ['ok', [[x[0], x[1]] for x in s], 1]
        if impl != want:
            res.violate(c, classify_send(impl, want), 'send:descriptors-order-count-or-bytes')
        if c['nfds'] >= 2:
            bump('send_multi_fd')

    # ---- histories of transmissions ------------------------------------------------------------------
    seqs = [c for c, _ in concrete if c['kind'] == 'sendseq']
    if seqs:
        evaluate_sendseq(seqs, res, bump, P, FakeTransport)


def ints_in(v, lo, hi):
    """how many integer leaves (dict keys included, bools excluded) of a Python body value lie in [lo, hi)"""
    if isinstance(v, bool):
        return 0
    if isinstance(v, int):
        return 1 if lo <= v < hi else 0
    if isinstance(v, (list, tuple)):
        return sum(ints_in(x, lo, hi) for x in v)
    if isinstance(v, dict):
        return sum(ints_in(k, lo, hi) + ints_in(x, lo, hi) for k, x in v.items())
    return 0


def subst_ints(v, lo, table):
    if isinstance(v, bool):
        return v
    if isinstance(v, int):
        return table[v - lo] if lo <= v < lo + len(table) else v
    if isinstance(v, list):
        return [subst_ints(x, lo, table) for x in v]
    if isinstance(v, tuple):
        return tuple(subst_ints(x, lo, table) for x in v)
    if isinstance(v, dict):
        return {subst_ints(k, lo, table): subst_ints(x, lo, table) for k, x in v.items()}
    return v


def evaluate_sendseq(cases, res, bump, P, FakeTransport):
    """histories of transmissions: every transmission of a message is judged on its own"""
    from txdbus import message, marshal
    prepared = []
    for c in cases:
        built = []
        for k, m in enumerate(c['msgs']):
            sig, vals = send_values(m, marshal)
            if m['body'] is not None and vals is None:
                built = None
                break
            fdv = [100 + j for j in range(m['nfds'])]
            if vals is not None and m['nfds'] and ints_in(vals, 100, 100 + m['nfds']) == m['nfds']:
                # the integers 100.. in the value are exactly its descriptors: give this message its own
                fdv = [1000 * (k + 1) + j for j in range(m['nfds'])]
                vals = subst_ints(vals, 100, fdv)
            built.append((m, sig, vals, fdv))
        if built is None:
            bump('sendseq_nonconforming_shape_skipped')
            continue
        prepared.append((c, built))
    lines, slines, runs = [], [], []
    for c, built in prepared:
        objs, failed = [], False
        for m, sig, vals, fdv in built:
            f = m['fields']
            serial0 = message.DBusMessage._nextSerial
            try:
                objs.append(message.MethodCallMessage(f.get('path'), f.get('member'), interface=f.get('interface'),
                                                      destination=f.get('destination'), signature=sig, body=vals,
                                                      expectReply=m['er'], autoStart=m['au'], oobFDs=[]))
            except Exception:
                objs.append(None)
            body_form = [5, [mc.pv_form(v) for v in vals]] if vals is not None else [10]
            lines.append('(20 4 %d %d %s %s %d)' % (m['er'], m['au'], common.dump(model_attrs(f, sig)),
                                                    common.dump(body_form), serial0))
            fields = [[CODE[a], FIELD_TY[CODE[a]], v] for a, v in sorted(f.items(), key=lambda kv: CODE[kv[0]])]
            if sig is not None:
                fields.append([8, 'g', sig])
            sm = {'le': True, 'mt': 1, 'flags': (0 if m['er'] else 1) + (0 if m['au'] else 2), 'serial': serial0,
                  'fields': fields, 'body': m['body'], 'fds': fdv}
            slines.append('(20 5 %s)' % common.dump(msg_sexp(sm)))
        conns = []
        for _ in range(c['nconn']):
            p = P()
            p.transport = FakeTransport()
            conns.append(p)
        for mi, ci in c['plan']:
            if objs[mi] is None:
                failed = True
                break
            try:
                conns[ci].sendMessage(objs[mi])
            except Exception:
                failed = True
                break
        runs.append((failed, [[[0, mc.pv_form(x[1])] if x[0] == 0 else [x[0], x[1]] for x in p.transport.calls]
                              for p in conns]))
    mo = common.run_model(lines)
    so = common.run_model(slines)
    pos = 0
    for (c, built), (failed, calls) in zip(prepared, runs):
        n = len(built)
        mos, sos = mo[pos:pos + n], so[pos:pos + n]
        pos += n
        times = [sum(1 for mi, _ in c['plan'] if mi == k) for k in range(n)]
        res.count(c, nontrivial=any(t >= 2 and built[k][0]['nfds'] >= 1 for k, t in enumerate(times)))
        bump('sendseq_cases')
        bump('sendseq_retransmissions', sum(t - 1 for t in times if t >= 2))
        impl = ['err'] if failed else ['ok', calls]
        if all(o[0] == 1 for o in mos):
            model = ['ok', [[[x[0], x[1]] for mi, ci in c['plan'] if ci == k for x in mos[mi][1]]
                            for k in range(c['nconn'])]]
        else:
            model = ['err']
        if impl != model and not (impl[0] == 'err' and model[0] == 'err'):
            res.disagree(c, impl, model)
        want = ['ok', [[[x[0], x[1]] for mi, ci in c['plan'] if ci == k for x in sos[mi]]
                       for k in range(c['nconn'])]]
        if impl != want:
            if impl[0] != 'ok':
                why = 'a transmission failed'
            else:
                k = next(i for i in range(c['nconn']) if impl[1][i] != want[1][i])
                short = lambda cs: [x[1] if x[0] == 0 else 'bytes' for x in cs]
                why = ('connection %d: the transport was handed %r; every transmission of a message puts its descriptors, '
                       'in argument order, ahead of its bytes: %r (plan %r)'
                       % (k, short(impl[1][k]), short(want[1][k]), c['plan']))
            res.violate(c, why, 'send:history-descriptors-order-count-or-bytes')


def classify_recv(got, want):
    gd = [x for x in got[0] if x[0] == 1]
    wd = want[0]
    if len(gd) != len(wd) or any(x[0] != 1 for x in got[0]):
        return 'delivered %d messages (dropped=%r), the stream holds %d complete ones' % (
            len(gd), any(x[0] == 0 for x in got[0]), len(wd)), 'recv:messages-delivered'
    for k, (g, w) in enumerate(zip(gd, wd)):
        if g[6] != w[6]:
            return ('message %d delivered with body %r, its own descriptors give %r' % (k, g[6], w[6]),
                    'recv:descriptor-argument-not-own')
        if g != w:
            return 'message %d delivered as %r, sent %r' % (k, g, w), 'recv:message-content'
    if got[1] != want[1]:
        return 'queue afterwards %r, descriptors of undelivered messages %r' % (got[1], want[1]), 'recv:queue'
    return 'unframed bytes differ', 'recv:residual'


def classify_send(impl, want):
    if impl[0] != 'ok':
        return 'the call could not be sent'
    gi = [x for x in impl[1] if x[0] == 0]
    wi = [x for x in want[1] if x[0] == 0]
    if gi != wi:
        return 'descriptors handed to the transport %r, arguments in order %r' % (gi, wi)
    if impl[1][:len(gi)] != gi:
        return 'descriptors not handed over ahead of the bytes'
    return 'bytes written differ from the specification encoding (UNIX_FDS count / indices)'


def run(ctx, res):
    res.rule = ('recv: sequences of 1-4 wire messages (specification encoding, both byte orders, all four types, shuffled / '
                'unknown header fields, bodies with UNIX_FD leaves in arrays, structs, dict values and variants) carrying 0-3 '
                'descriptors each; for sequences of <= 3 messages ALL consistent interleavings over the cut candidates {inside '
                'the fixed header, before the final byte, message end} of every message, random byte-level cuts otherwise, '
                'prefixes, empty reads, one byte per read; hostile sequences (index beyond the own count, UNIX_FDS absent / 0 / '
                'too small / too large / negative / of another type), stray and late descriptors, corrupted bytes '
                '(correspondence only outside the hypotheses).  send: method calls with 0-4 UNIX_FD arguments nested in '
                'containers, random Python shapes, via sendMessage and via callRemote; histories of 1-7 '
                'transmissions of 1-3 message objects over 1-2 connections in which a message object goes out more than once '
                '(every transmission judged against send_spec).  Non-trivial: a recv case with at '
                'least one descriptor event and one delivery; a send case with at least one descriptor; a history in which '
                'a message with descriptors is transmitted at least twice')
    evaluate(ctx, gen_cases(ctx), res)
    res.exhaustive = not res.extra.get('exhaustive_plans_capped', False)
