"""C17 correspondence: DBusProperty / Properties.Get / Set / GetAll of the real txdbus.objects against
Model/PropsModel.v (model, pre-repair legacy model) and Spec/PropsSpec.v (oracle).

A case is [shape, classes, history, strict] or [shape, classes, history, strict, others]:
  shape   = 0: single-inheritance chain (class k derives from class k+1, the last from DBusObject)
            1: diamond of four classes (0 derives from 1 and 2, both derive from 3)
  classes = [[ifaces, dprops], ...] in MRO order, most derived first
            iface = [name, [[pname, sig, readable, writeable, emits], ...]]      emits 0 False / 1 True / 2 'invalidates'
            dprop = [attr, pname, None | iface name, when]   when (optional, default 0): 0 the descriptor is in the
                    class namespace given to type(); 1 attached with setattr after type(), before the first instance;
                    2 attached after the instance was created, before any property was used; 3 attached after the
                    first completed local assignment (the per-class caches exist): never resolved by txdbus, not passed to the model,
                    no operation uses it
  history = [[0, attr, val] | [1, c] | [2, i, n, c] | [3, i, n, val, c] | [4, i, c] | [5, c], ...]
            assign / export on connection c / Get / Set / GetAll arriving on connection c / unexport from c
            (c in {1, 2}; omitted = 1)
            val in the coding of Model/PyVal.v: [0, int] [1, bool] [2, double bits] [3, utf8 bytes] [5, list]
            [6, tuple] [7, [[k, v], ...]] [9, type code, val] (marshal.Byte ... ObjectPath instance) [10] None
  strict  = 1: every assigned / Set value conforms to the declared type of its property (the typed
            clauses of the property are checked); 0: the malformed-value stream.
  others  = (optional) [[j, history, after], ...]: FURTHER OBJECTS of classes of the same hierarchy.  Entry
            [j, history, after] is an instance of class j (j = 0: a second instance of the most derived class;
            j > 0: an instance of an ancestor class), living on two connections of its own, whose whole history
            runs before the main object (the instance of class 0 that `history` drives) is even created
            (after = 0), or after the main object's history has ended (after = 1).  Every object is compared
            with the model and judged by the oracle on its own, against the declarations of ITS class (the part
            of `classes` in its MRO): txdbus keeps DBusProperty descriptors and the interface caches on the
            classes, which the objects share; the property speaks of every declared property of every object,
            so what one object's use leaves behind on the classes must not show in another's answers.
The classes are built with type() against the tree under test; the object is exported on real
DBusObjectHandlers (two connections) each of whose connection records the bytes of every message; remote calls are raw call bytes read
by message.parseMessage; replies and signals are decoded from their bytes by harness/c17_wire.py."""
import struct

from harness import common
from harness import c17_wire as wire

ASSUMPTIONS = [
    'several objects of one class hierarchy (instances of an ancestor class used before the first instance of the derived '
    'class exists, or after it; a second instance of the same class) are generated as independent objects: the model has no '
    'class-level state, each object is compared and judged against the declarations in the MRO of its own class. Such '
    'families are generated only where every class that is instantiated is closed (each DBusProperty of a class in its '
    'MRO names a property of an interface declared in that MRO, and resolves there to the same interface as in the full '
    'hierarchy): a base class carrying a descriptor for an interface that only a subclass declares cannot serve it on '
    'its own, and which object first touches it then decides how txdbus resolves it (not modelled, not generated). '
    'Interleaved use of two objects of one hierarchy is not generated',
    'declarations are well formed for the theorems and the oracle (each interface name declared once in the hierarchy, '
    'distinct property names within an interface, each DBusProperty names an existing property, no attribute name '
    'reused in the hierarchy); hierarchies with a repeated interface name or a shadowed attribute are generated at a '
    'low rate and compared with the model only',
    'dispatch of org.freedesktop.DBus.Properties calls (interface / member lookup, argument signature check, reply '
    'addressing) is property C10; calls here carry the right argument signature',
    'error replies are compared as "an error reply" (the property names no error names; the code answers every '
    'refusal with org.txdbus.PythonException.Exception)',
    "emitsOnChange='invalidates' is read as NOT 'declared to emit change notifications' in the sense of the statement "
    '(which requires the new value in the signal; invalidation by definition omits it): the code emits nothing for it '
    'and the oracle expects nothing',
    "GetAll with an interface name the object does not have: an empty dictionary or an error reply are both accepted "
    "(DESIGN.md section 9 (3)); GetAll('') and Get/Set with '' when several interfaces have the property are compared "
    'with the model only (the DBus specification leaves them open)',
    'values whose coercion the model does not represent (float assigned to an integer-typed property, digit strings '
    'assigned to integer-typed properties, bytearrays) are not generated',
    'the variant type inside PropertiesChanged is not constrained by the statement and not checked by the oracle '
    '(it is compared with the model)',
    'connections: the statement asks for one PropertiesChanged and names no connection. Oracle (Spec changed_demanded): '
    'while the object is exported on the connection of its most recent export the one signal must be sent there '
    '(exported on two connections at once it announces on the later one only - the code\'s choice, taken as given); '
    'while it is exported only on another connection (export 1, export 2, unexport 2) count and content are demanded but '
    'not the connection (the code announces on 2, where the object no longer is: observation); once exported nowhere, '
    'silence or the announcement are both accepted (the code keeps announcing: unexportObject does not detach)',
    'a DBusProperty attached to its class after the per-class caches were built (when = 3) is never resolved by txdbus '
    '(assigning it raises AttributeError, remote access answers Invalid Property); such descriptors are attached in some '
    'cases to check that the declared properties are unaffected, but no operation uses them and the model does not see '
    'them; descriptors attached before the caches exist (when = 1, 2) must behave exactly like class-body ones',
]

PROPS_IFACE = 'org.freedesktop.DBus.Properties'
OM_IFACE = 'org.freedesktop.DBus.ObjectManager'
PATH = '/o'
SENDER = ':1.7'
INT_RANGE = {'y': (0, 255), 'n': (-2**15, 2**15 - 1), 'q': (0, 2**16 - 1), 'i': (-2**31, 2**31 - 1),
             'u': (0, 2**32 - 1), 'x': (-2**63, 2**63 - 1), 't': (0, 2**64 - 1)}
BASIC = 'bynqiuxtdsog'
CONTAINER_SIGS = ['as', 'ai', 'a{sv}', '(is)', 'v', 'a{su}']
IFACE_POOL = ['org.ex.A', 'org.ex.B', 'x.y', 'x.yz', 'org.ex.C']
PNAME_POOL = ['P', 'zP', 'Q', 'R', 'Level']
WRONG_IFACES = ['org.ex.Nope', '', 'x.yzP', 'org.ex']
WRONG_PNAMES = ['Z', '', 'p', 'yzP']
STRINGS = ['', 'a', 'hello', 'hé', 'abc def', 'None', 'xyz']
PATHS = ['/', '/a', '/a/b', '/org/ex/Obj_1']
SIGS = ['', 'i', 'a{sv}', '(ii)', 'as']
DOUBLES = [0.0, 1.5, -2.25, 1e100, float('inf'), 3.0]

_env = {}


def env():
    if _env:
        return _env
    from txdbus import objects, message, marshal, interface
    wrap = {ord('y'): marshal.Byte, ord('b'): marshal.Boolean, ord('n'): marshal.Int16, ord('q'): marshal.UInt16,
            ord('i'): marshal.Int32, ord('u'): marshal.UInt32, ord('x'): marshal.Int64, ord('t'): marshal.UInt64,
            ord('g'): marshal.Signature, ord('o'): marshal.ObjectPath}

    class Conn(object):
        def __init__(self):
            self.sent = []

        def sendMessage(self, msg):
            self.sent.append(bytes(msg.rawMessage))

    _env.update(objects=objects, message=message, marshal=marshal, interface=interface, wrap=wrap, Conn=Conn)
    return _env


# ---------------------------------------------------------------------------------------------
# values
def py_of(pv, E):
    """coded value -> Python object"""
    t = pv[0]
    if t == 0:
        return int(pv[1])
    if t == 1:
        return bool(pv[1])
    if t == 2:
        return struct.unpack('<d', struct.pack('<Q', pv[1]))[0]
    if t == 3:
        return bytes(pv[1]).decode('utf-8')
    if t == 5:
        return [py_of(x, E) for x in pv[1]]
    if t == 6:
        return tuple(py_of(x, E) for x in pv[1])
    if t == 7:
        return {py_of(k, E): py_of(v, E) for k, v in pv[1]}
    if t == 9:
        return E['wrap'][pv[1]](py_of(pv[2], E))
    if t == 10:
        return None
    raise ValueError(pv)


def pv_of(v):
    """Python object as delivered by unmarshal -> coded value"""
    if isinstance(v, bool):
        return [1, int(v)]
    if isinstance(v, int):
        return [0, int(v)]
    if isinstance(v, float):
        return [2, struct.unpack('<Q', struct.pack('<d', v))[0]]
    if isinstance(v, str):
        return [3, v.encode('utf-8')]
    if isinstance(v, (list, tuple)):
        return [5, [pv_of(x) for x in v]]
    if isinstance(v, dict):
        return [7, [[pv_of(k), pv_of(x)] for k, x in v.items()]]
    raise ValueError(v)


def norm(x):
    """coded value with strings as bytes (JSON replays bring lists back; the model prints bytes)"""
    if isinstance(x, (bytes, bytearray)):
        return bytes(x)
    if isinstance(x, str):
        return x.encode('latin-1')
    if isinstance(x, (list, tuple)):
        return [norm(e) for e in x]
    return x


def s(b):
    if isinstance(b, (bytes, bytearray)):
        return bytes(b).decode('latin-1')
    if isinstance(b, list):
        return ''.join(chr(c) for c in b)
    return b


def conforms(sig, pv):
    """does the coded value conform to the declared basic type (no coercion needed beyond the wrapper)?"""
    inner = pv[2] if pv[0] == 9 else pv
    if sig in INT_RANGE:
        if pv[0] == 9 and pv[1] in (ord('g'), ord('o')):
            return False
        lo, hi = INT_RANGE[sig]
        return inner[0] == 0 and lo <= inner[1] <= hi
    if sig == 'b':
        return pv[0] == 1 or (inner[0] == 0 and inner[1] in (0, 1) and pv[0] != 9) or (pv[0] == 9 and pv[1] == ord('b'))
    if sig == 'd':
        return pv[0] == 2
    if sig == 's':
        return pv[0] == 3 and b'\0' not in bytes(pv[1])
    if sig == 'o':
        return inner[0] == 3 and bytes(inner[1]).decode('utf-8') in PATHS and (pv[0] == 3 or pv[1] == ord('o'))
    if sig == 'g':
        return inner[0] == 3 and bytes(inner[1]).decode('utf-8') in SIGS and (pv[0] == 3 or pv[1] == ord('g'))
    return None      # containers: not judged


def plain(pv):
    """the value a conforming coded value denotes, as read back"""
    inner = pv[2] if pv[0] == 9 else pv
    return norm(inner)


def gen_conforming(rng, sig, for_set=False):
    """coded value conforming to sig; for_set: the Python object must marshal as a variant of exactly sig"""
    if sig in INT_RANGE:
        lo, hi = INT_RANGE[sig]
        z = rng.choice([lo, hi, 0, 1, rng.randint(lo, hi), rng.randint(max(lo, -100), min(hi, 100)),
                        min(hi, 3000000000), min(hi, 2**31)])
        if for_set or rng.random() < 0.25:
            return [9, ord(sig), [0, z]]
        return [0, z]
    if sig == 'b':
        b = rng.randrange(2)
        return [1, b]
    if sig == 'd':
        return [2, struct.unpack('<Q', struct.pack('<d', rng.choice(DOUBLES)))[0]]
    if sig == 's':
        return [3, rng.choice(STRINGS).encode('utf-8')]
    if sig == 'o':
        v = [3, rng.choice(PATHS).encode('utf-8')]
        return [9, ord('o'), v] if for_set or rng.random() < 0.3 else v
    if sig == 'g':
        v = [3, rng.choice(SIGS).encode('utf-8')]
        return [9, ord('g'), v] if for_set or rng.random() < 0.3 else v
    if sig == 'as':
        return [5, [[3, rng.choice(STRINGS).encode('utf-8')] for _ in range(rng.randint(1, 3))]]
    if sig == 'ai':
        return [5, [[0, rng.randint(-5, 5)] for _ in range(rng.randint(1, 3))]]
    if sig == 'a{sv}':
        return [7, [[[3, k.encode()], rng.choice([[0, 3], [3, b'x'], [1, 1]])] for k in rng.sample(['a', 'b', 'c'], rng.randint(1, 2))]]
    if sig == 'a{su}':
        return [7, [[[3, k.encode()], [9, ord('u'), [0, rng.randint(0, 9)]]] for k in rng.sample(['a', 'b', 'c'], rng.randint(1, 2))]]
    if sig == '(is)':
        return [6, [[0, rng.randint(-9, 9)], [3, rng.choice(STRINGS).encode('utf-8')]]]
    if sig == 'v':
        return rng.choice([[0, 5], [3, b'v'], [9, ord('q'), [0, 7]], [1, 0]])
    raise ValueError(sig)


def gen_nonconforming(rng, sig, remote):
    """a value of another type (kept inside what the model represents)"""
    pool = [[3, b'abc'], [3, b''], [0, 7], [0, -1], [0, 2**40], [1, 1], [5, [[0, 1]]], [9, ord('q'), [0, 7]],
            [9, ord('o'), [3, b'/a']], [3, b'/not a path']]
    if not remote:
        pool.append([10])
    if sig in INT_RANGE or sig == 'b':
        pool += [[0, INT_RANGE.get(sig, (0, 1))[1] + 1], [0, INT_RANGE.get(sig, (0, 1))[0] - 1]]
    if sig in 'go':     # str() of a list is not modelled
        pool = [v for v in pool if v[0] != 5]
    if remote:      # the caller must be able to send it: a plain int travels as 'i'
        pool = [v for v in pool if not (v[0] == 0 and not -2**31 <= v[1] < 2**31)]
    return rng.choice(pool)


# ---------------------------------------------------------------------------------------------
# building the object
def dp_when(d):
    return int(d[3]) if len(d) > 3 else 0


def others_of(case):
    return [[int(o[0]), [norm_op(x) for x in o[1]], int(o[2]) if len(o) > 2 else 0] for o in (case[4] if len(case) > 4 else [])]


def mro_idx(shape, n, j):
    """indices (into `classes`) of the classes in the MRO of class j"""
    if shape == 1 and n == 4:
        return {0: [0, 1, 2, 3], 1: [1, 3], 2: [2, 3], 3: [3]}[j]
    return list(range(j, n))


def sub_case(case, j):
    """the case an object of class j is on its own: the declarations in its MRO (always a chain), its own history"""
    idxs = mro_idx(case[0], len(case[1]), j)
    return [0, [case[1][k] for k in idxs], [], case[3]]


def resolve(classes, idxs, d):
    """interface name a dprop resolves to among the classes idxs (getInterfaces() order), None if it does not"""
    for k in idxs:
        for iname, props in classes[k][0]:
            if (d[2] is None or s(iname) == s(d[2])) and any(s(q[0]) == s(d[1]) for q in props):
                return s(iname)
    return None


def closed(case, j):
    """class j can be used on its own and resolves its descriptors as the whole hierarchy does"""
    n = len(case[1])
    idxs, full = mro_idx(case[0], n, j), mro_idx(case[0], n, 0)
    return all(resolve(case[1], idxs, d) is not None and resolve(case[1], idxs, d) == resolve(case[1], full, d)
               for k in idxs for d in case[1][k][1])


def build_classes(case, E):
    """-> (classes most derived first, attach(when))"""
    shape, classes = case[0], case[1]
    objects, interface = E['objects'], E['interface']
    emap = {0: False, 1: True, 2: 'invalidates'}
    n = len(classes)
    built = [None] * n
    for k in range(n - 1, -1, -1):
        ifaces, dprops = classes[k]
        ns = {}
        if ifaces:
            ns['dbusInterfaces'] = [
                interface.DBusInterface(s(iname), *[interface.Property(s(pn), s(sg), readable=bool(r), writeable=bool(w),
                                                                         emitsOnChange=emap[e])
                                                    for pn, sg, r, w, e in props], noRegister=True)
                for iname, props in ifaces]
        for d in dprops:
            if dp_when(d) == 0:
                ns[s(d[0])] = objects.DBusProperty(s(d[1]), s(d[2]) if d[2] is not None else None)
        if shape == 1 and n == 4:
            bases = {0: (built[1], built[2]), 1: (built[3],), 2: (built[3],), 3: (objects.DBusObject,)}[k]
        else:
            bases = (built[k + 1],) if k + 1 < n else (objects.DBusObject,)
        built[k] = type('C17_%d' % k, bases, ns)

    def attach(when):
        for k in range(n):
            for d in classes[k][1]:
                if dp_when(d) == when:
                    setattr(built[k], s(d[0]), objects.DBusProperty(s(d[1]), s(d[2]) if d[2] is not None else None))

    for j in range(n):
        mro = [c for c in built[j].__mro__ if c not in (objects.DBusObject, object)]
        if mro != [built[k] for k in mro_idx(shape, n, j)]:
            raise RuntimeError('MRO differs from the case order')
    return built, attach


def model_hier(case):
    out = []
    for ifaces, dprops in case[1]:
        out.append([[[s(iname), [[s(pn), s(sg), int(r), int(w), int(e)] for pn, sg, r, w, e in props]] for iname, props in ifaces],
                    # class __dict__ order: namespace descriptors first, then those attached by setattr
                    [[s(d[0]), s(d[1]), (None if d[2] is None else [s(d[2])])]
                     for d in sorted((d for d in dprops if dp_when(d) < 3), key=dp_when)]])
    return out


# ---------------------------------------------------------------------------------------------
# observing the implementation
def obs_variant(tv):
    if not (isinstance(tv, tuple) and tv[0] == 'v'):
        return ['not-a-variant']
    return [bytes(tv[1]), norm(tv[2])]


def obs_dict(d):
    if not (isinstance(d, list) and d and d[0] == 'dict'):
        return ['not-a-dict']
    return sorted([bytes(k[1])] + obs_variant(v) for k, v in d[1])


def classify(raws, serial, E, c):
    """messages sent on connection c during one operation -> (replies, signals)"""
    replies, signals = [], []
    for raw in raws:
        m = E['message'].parseMessage(raw, [])
        t = type(m).__name__
        if t == 'SignalMessage':
            if m.path != PATH or getattr(m, 'destination', None) is not None:
                signals.append(['other-signal', c, m.path])
            elif m.interface == PROPS_IFACE and m.member == 'PropertiesChanged' and m.signature == 'sa{sv}as':
                iname, changed, inval = wire.decode_body(raw, 'sa{sv}as')
                ents = obs_dict(changed)
                if len(ents) != 1 or inval != [5, []]:
                    signals.append(['changed-shape', c, len(ents), norm(inval)])
                else:
                    signals.append([0, c, bytes(iname[1]), ents[0][0], ents[0][1], ents[0][2]])
            elif m.interface == OM_IFACE and m.member == 'InterfacesAdded' and m.signature == 'sa{sa{sv}}':
                p, d = wire.decode_body(raw, 'sa{sa{sv}}')
                if bytes(p[1]) != PATH.encode():
                    signals.append(['added-path', c, bytes(p[1])])
                else:
                    signals.append([1, c, sorted([bytes(k[1]), obs_dict(v)] for k, v in d[1])])
            elif m.interface == OM_IFACE and m.member == 'InterfacesRemoved' and m.signature == 'sas':
                p, names = wire.decode_body(raw, 'sas')
                if bytes(p[1]) != PATH.encode():
                    signals.append(['removed-path', c, bytes(p[1])])
                else:
                    signals.append([2, c, sorted(bytes(x[1]) for x in names[1])])
            else:
                signals.append(['other-signal', c, m.interface, m.member])
        elif t in ('MethodReturnMessage', 'ErrorMessage'):
            if serial is None or m.reply_serial != serial or m.destination != SENDER:
                replies.append(['stray-reply'])
            elif t == 'ErrorMessage':
                replies.append([5])
            elif not m.signature:
                replies.append([4])
            elif m.signature == 'v':
                replies.append([2] + obs_variant(wire.decode_body(raw, 'v')[0]))
            elif m.signature == 'a{sv}':
                replies.append([3, obs_dict(wire.decode_body(raw, 'a{sv}')[0])])
            else:
                replies.append(['reply-signature', m.signature])
        else:
            replies.append(['other-message', t])
    return replies, signals


def norm_op(op):
    """history entry with the connection made explicit (older cases have none: connection 1)"""
    op = list(op)
    k = op[0]
    want = {0: 3, 1: 2, 2: 4, 3: 5, 4: 3, 5: 2}[k]
    if len(op) < want:
        op.append(1)
    return op


def op_conn(op):
    return int(op[-1]) if op[0] != 0 else 0


def run_impl(case, E):
    """-> [(class index, case of that object, observations per operation, history as the model must see it), ...]
    one entry per object, in the order the objects live: others with after = 0, the main object, others with after = 1"""
    built, attach = build_classes(case, E)
    others = others_of(case)
    if others:
        if any(dp_when(d) for c in case[1] for d in c[1]):
            raise RuntimeError('a case with several objects attaches every descriptor in the class body')
        for o in others:
            if not closed(case, o[0]):
                raise RuntimeError('class %d of the case is instantiated but not closed: %r' % (o[0], case[1]))
    out = []
    for j, hist, after in others:
        if not after:
            sc = sub_case(case, j)
            sc[2] = hist
            out.append((j, sc) + run_object(built[j](PATH), hist, E, None))
    attach(1)
    obj = built[0](PATH)
    attach(2)
    out.append((0, case[:4]) + run_object(obj, case[2], E, lambda: attach(3)))
    for j, hist, after in others:
        if after:
            sc = sub_case(case, j)
            sc[2] = hist
            out.append((j, sc) + run_object(built[j](PATH), hist, E, None))
    return out


def run_object(obj, history, E, attach_late):
    """one object on two connections of its own -> (observations per operation, history as the model must see it)"""
    conns = {1: E['Conn'](), 2: E['Conn']()}
    handlers = {c: E['objects'].DBusObjectHandler(conns[c]) for c in conns}
    message = E['message']
    out, mhist = [], []
    late_done = attach_late is None
    for idx, op in enumerate(history):
        k = op[0]
        c = op_conn(op)
        n0 = {x: len(conns[x].sent) for x in conns}
        serial = None
        raised = False
        mop = None
        if k == 0:
            mop = [0, s(op[1]), norm(op[2])]
            try:
                setattr(obj, s(op[1]), py_of(op[2], E))
            except Exception:
                raised = True
        elif k == 1:
            mop = [1, c]
            try:
                handlers[c].exportObject(obj)
            except Exception:
                raised = True
        elif k == 5:
            mop = [5, c]
            try:
                handlers[c].unexportObject(PATH)
            except Exception:
                raised = True
        else:
            if k == 2:
                mc = message.MethodCallMessage(PATH, 'Get', interface=PROPS_IFACE, signature='ss', body=[s(op[1]), s(op[2])])
            elif k == 3:
                mc = message.MethodCallMessage(PATH, 'Set', interface=PROPS_IFACE, signature='ssv',
                                               body=[s(op[1]), s(op[2]), py_of(op[3], E)])
            else:
                mc = message.MethodCallMessage(PATH, 'GetAll', interface=PROPS_IFACE, signature='s', body=[s(op[1])])
            msg = message.parseMessage(bytes(mc.rawMessage), [])
            msg.sender = SENDER
            serial = msg.serial
            if k == 2:
                mop = [2, c, msg.body[0], msg.body[1]]
            elif k == 3:
                mop = [3, c, msg.body[0], msg.body[1], pv_of(msg.body[2])]
            else:
                mop = [4, c, msg.body[0]]
            try:
                handlers[c].handleMethodCallMessage(msg)
            except Exception:
                raised = True
        replies, signals = [], []
        for x in sorted(conns):
            r, sg = classify(conns[x].sent[n0[x]:], serial if x == c else None, E, x)
            replies += r
            signals += sg
        if k in (0, 1, 5):
            rp = [1] if raised else [0]
            if replies:
                rp = ['unexpected-reply'] + replies
        else:
            if raised:
                rp = ['escaped']
            elif len(replies) != 1:
                rp = ['replies', len(replies)]
            else:
                rp = replies[0]
        out.append([rp, signals])
        mhist.append(mop)
        if k == 0 and not raised and not late_done:
            # a completed assignment has built the caches of every class (DBusProperty.__set__ walks them all)
            attach_late()
            late_done = True
    return out, mhist


# ---------------------------------------------------------------------------------------------
# the model's answers in the same canonical form
def m_var(sg, v):
    return [bytes(sg), norm(v)]


def m_dict(d):
    return sorted([bytes(e[0])] + m_var(e[1], e[2]) for e in d)


def m_reply(o):
    t = o[0]
    if t == 2:
        return [2] + m_var(o[1], o[2])
    if t == 3:
        return [3, m_dict(o[1])]
    return [t]


def m_signal(o):
    if o[0] == 0:
        return [0, o[1], bytes(o[2]), bytes(o[3])] + m_var(o[4], o[5])
    if o[0] == 2:
        return [2, o[1], sorted(bytes(x) for x in o[2])]
    return [1, o[1], sorted([bytes(e[0]), m_dict(e[1])] for e in o[2])]


def m_out(o):
    return [m_reply(o[0]), [m_signal(x) for x in o[1]]]


class PerSignature(object):
    def __init__(self, res, limit=10):
        self.res = res
        self.limit = limit

    def violate(self, case, why, signature):
        seen = self.res.extra.setdefault('violations_by_signature', {})
        seen[signature] = seen.get(signature, 0) + 1
        if seen[signature] <= self.limit:
            self.res.violate(case, why, signature)


# ---------------------------------------------------------------------------------------------
# oracle: implementation against the specification
def declared_sig(case, iname, pname):
    for ifaces, _ in case[1]:
        for n, props in ifaces:
            if s(n) == iname:
                for p in props:
                    if s(p[0]) == pname:
                        return s(p[1])
    return None


def iface_known(case, iname):
    return iname == PROPS_IFACE or any(s(n) == iname for ifaces, _ in case[1] for n, _ in ifaces)


def oracle(case, idx, op, impl, spec, res, track):
    """spec = [exported (on the connection of the call), clear, reply, changed, write, entries, [on 1, on 2], handler]"""
    exported, clear, rp, changed, write, entries, on, handler = spec
    irp, isigs = impl
    val = op[2] if op[0] == 0 else (op[3] if op[0] == 3 else None)
    if track.get('dirty'):
        return          # a Set through '' reached a property the specification does not single out
    if op[0] == 3 and not clear:
        track['dirty'] = True
        return
    strict = case[3]
    where = 'step %d %r' % (idx, op[:3])
    k = op[0]
    pc = [x for x in isigs if x and x[0] == 0]
    others = [x for x in isigs if not (x and x[0] in (0, 1, 2))]
    if others:
        res.violate(case, '%s: unexpected message %r' % (where, others), 'signal:malformed')
    # [connection, interface, name, value]: the value is compared, the variant type is not
    want_sigs = [[c[1], bytes(c[2]), bytes(c[3]), norm(c[5])] for c in changed]
    got_sigs = [[x[1], x[2], x[3], x[5]] for x in pc]
    latest = handler[0] if handler else None            # connection of the most recent export
    if latest is None:
        placed, sig_ok = 'never exported', got_sigs == []
    elif on[latest - 1]:
        placed, sig_ok = 'exported on its latest connection %d' % latest, got_sigs == want_sigs
    elif any(on):
        placed = 'exported, but no longer on its latest connection %d' % latest
        sig_ok = [x[1:] for x in got_sigs] == [x[1:] for x in want_sigs]
    else:
        placed, sig_ok = 'exported nowhere any more', got_sigs in ([], want_sigs)
    if k == 0 or k == 3:
        presentable = bool(write) and bool(write[2])
        if write:
            key = (s(write[0]), s(write[1]))
            sig = declared_sig(case, key[0], key[1])
            cf = conforms(sig, val) if sig in BASIC else None
            track[key] = (cf, val, sig)
        if not write:
            if k == 3:
                if irp != [5]:
                    res.violate(case, '%s: Set on an unknown or non-writable property (or unexported object) answered %r' % (where, irp),
                                'set:accepted-without-write-access')
                if pc:
                    res.violate(case, '%s: refused Set emitted %r' % (where, pc), 'signal:emitted-by-refused-set')
        elif presentable or not write[3]:
            if k == 0 and irp != [0]:
                res.violate(case, '%s: assigning a presentable value raised' % where, 'assign:raises')
            if k == 3 and irp != [4]:
                res.violate(case, '%s: Set of a presentable value on a writable property answered %r' % (where, irp),
                            'set:refused-on-writable-property')
            if not sig_ok:
                if len(got_sigs) < len(want_sigs):
                    sg = 'signal:missing'
                elif len(got_sigs) > len(want_sigs):
                    sg = 'signal:unexpected' if not want_sigs else 'signal:duplicated'
                elif [x[1:] for x in got_sigs] == [x[1:] for x in want_sigs]:
                    sg = 'signal:wrong-connection'
                else:
                    sg = 'signal:content'
                res.violate(case, '%s: object %s: PropertiesChanged [connection, interface, name, value] expected %r, got %r'
                            % (where, placed, want_sigs, got_sigs), sg)
        if k == 3 and write and irp == [4]:
            sig = declared_sig(case, s(write[0]), s(write[1]))
            if sig in BASIC and conforms(sig, val) is False:
                res.violate(case, '%s: Set accepted a value %r that is not of the declared type %s' % (where, val, sig),
                            'set:accepts-value-of-wrong-type')
    elif k == 2:
        if clear:
            want = m_reply(rp[0])
            if irp != want:
                if want == [5]:
                    sg = 'get:reveals-unreadable-or-unknown'
                elif irp == [5] or irp[0] != 2:
                    sg = 'get:error-for-readable-property'
                elif irp[1] != want[1]:
                    sg = 'get:variant-type'
                else:
                    sg = 'get:wrong-value'
                res.violate(case, '%s: Get expected %r, got %r' % (where, want, irp), sg)
            # typed clause, judged here from the declaration and the tracked assignment
            if op[1] and irp and irp[0] == 2:
                key = (s(op[1]), s(op[2]))
                t = track.get(key)
                if t and t[0] is True:
                    if irp[1] != t[2].encode() or irp[2] != plain(t[1]):
                        res.violate(case, '%s: conforming value %r of declared type %s came back as %r' % (where, t[1], t[2], irp),
                                    'get:not-the-declared-basic-type')
    elif k == 4:
        iname = s(op[1])
        if iname and exported:
            want = sorted([bytes(e[0])] + (m_var(e[1][1], e[1][2]) if e[1][0] == 1 else [None]) for e in entries)
            bad = any(e[1][0] == 0 for e in entries)
            if bad:
                if irp != [5]:
                    res.violate(case, '%s: a readable property cannot be presented, GetAll answered %r' % (where, irp), 'getall:unpresentable')
            elif not iface_known(case, iname) and irp == [5]:
                pass
            elif irp != [3, want]:
                got_names = [e[0] for e in irp[1]] if irp and irp[0] == 3 else None
                want_names = [e[0] for e in want]
                if got_names is None:
                    sg = 'getall:error'
                elif set(want_names) - set(got_names):
                    sg = 'getall:misses-readable-property'
                elif set(got_names) - set(want_names):
                    sg = 'getall:reveals-extra-property'
                else:
                    sg = 'getall:value'
                res.violate(case, '%s: GetAll expected %r, got %r' % (where, want, irp), sg)
    if k in (2, 4) and pc:
        res.violate(case, '%s: a read emitted %r' % (where, pc), 'signal:emitted-by-read')


class OfFamily(object):
    """violations of one object of a case with several objects: reported with the whole case (which is what replays)"""

    def __init__(self, inner, full, prefix):
        self.inner, self.full, self.prefix = inner, full, prefix

    def violate(self, case, why, signature):
        self.inner.violate(self.full, self.prefix + why, signature)


def norm_case(c):
    out = [int(c[0]), c[1], [norm_op(o) for o in c[2]], int(c[3])]
    if len(c) > 4 and c[4]:
        out.append([[int(o[0]), [norm_op(x) for x in o[1]], int(o[2]) if len(o) > 2 else 0] for o in c[4]])
    return out


def evaluate(ctx, cases, res):
    E = env()
    cases = [norm_case(c) for c in cases]
    impl_all = []
    lines = []
    for c in cases:
        objs = run_impl(c, E)
        impl_all.append(objs)
        for j, sc, io, mhist in objs:
            lines.append('(17 %s %s)' % (common.dump(model_hier(sc)), common.dump(mhist)))
    outs = common.run_model(lines)
    vres = PerSignature(res)
    nops = 0
    stats = res.extra.setdefault('c17', {'ops': 0, 'wf_cases': 0, 'non_wf_cases': 0, 'legacy_differs_steps': 0,
                                          'impl_equals_legacy_not_current': 0, 'signals_seen': 0, 'error_replies': 0,
                                          'value_replies': 0, 'getall_replies': 0})
    pos = 0
    for case, objs in zip(cases, impl_all):
        family = len(objs) > 1
        res.count(case, nontrivial=any(o[0] in (2, 3, 4) for o in case[2]))
        if family:
            stats['cases_with_several_objects'] = stats.get('cases_with_several_objects', 0) + 1
            first = objs[0][0]
            kk = 'first_object_is_of_an_ancestor_class' if first else 'first_object_is_of_the_most_derived_class'
            stats[kk] = stats.get(kk, 0) + 1
        for nth, (j, sc, io, mhist) in enumerate(objs):
            mo = outs[pos]
            pos += 1
            if mo == [-1]:
                raise RuntimeError('model rejected input %r' % (case,))
            wf, compiled, steps = mo
            if not compiled:
                raise RuntimeError('generator produced a hierarchy whose DBusProperty declarations do not resolve: %r' % (sc[1],))
            res.traces += 1
            stats['wf_cases' if wf else 'non_wf_cases'] += 1
            stats['unexports'] = stats.get('unexports', 0) + sum(1 for o in sc[2] if o[0] == 5)
            stats['ops_on_connection_2'] = stats.get('ops_on_connection_2', 0) + sum(1 for o in sc[2] if op_conn(o) == 2)
            for w in (1, 2, 3):
                kk = 'descriptors_attached_when_%d' % w
                stats[kk] = stats.get(kk, 0) + sum(1 for c in sc[1] for d in c[1] if dp_when(d) == w)
            who = ''
            ores = vres
            if family:
                who = 'object %d of %d (an instance of class %d%s): ' % (nth + 1, len(objs), j, '' if j else ', the most derived')
                ores = OfFamily(vres, case, who)
            track = {}
            for idx, (op, im, st) in enumerate(zip(sc[2], io, steps)):
                nops += 1
                cur, leg, spec = m_out(st[0]), m_out(st[1]), st[2]
                if cur != leg:
                    stats['legacy_differs_steps'] += 1
                stats['signals_seen'] += len(im[1])
                if im[0] == [5]:
                    stats['error_replies'] += 1
                elif im[0] and im[0][0] == 2:
                    stats['value_replies'] += 1
                elif im[0] and im[0][0] == 3:
                    stats['getall_replies'] += 1
                if im != cur:
                    if im == leg:
                        stats['impl_equals_legacy_not_current'] += 1
                    res.disagree(case, [who + 'step', idx, im], ['step', idx, cur])
                if wf:
                    oracle(sc, idx, op, im, spec, ores, track)
    stats['ops'] += nops
    res.evaluations += nops - len(cases)


# ---------------------------------------------------------------------------------------------
# generators
def gen_hier(rng, wf=True):
    shape = 1 if rng.random() < 0.2 else 0
    n = 4 if shape == 1 else rng.choice([1, 2, 2, 3, 3, 4])
    inames = rng.sample(IFACE_POOL, rng.randint(1, 3))
    # interfaces with their properties; the same property name may appear on several interfaces
    idefs = []
    for iname in inames:
        pn = rng.sample(PNAME_POOL, rng.randint(1, 3))
        if iname == 'x.y' and rng.random() < 0.7 and 'zP' not in pn:
            pn[0] = 'zP'
        if iname == 'x.yz' and rng.random() < 0.7 and 'P' not in pn:
            pn[0] = 'P'
        props = []
        for p in pn:
            sig = rng.choice(BASIC) if rng.random() < 0.8 else rng.choice(CONTAINER_SIGS)
            r, w = rng.choice([(1, 0), (1, 1), (1, 1), (0, 1), (0, 0)])
            props.append([p, sig, r, w, rng.choice([0, 1, 1, 2])])
        idefs.append([iname, props])
    classes = [[[], []] for _ in range(n)]
    for d in idefs:
        classes[rng.randrange(n)][0].append(d)
    if not wf and rng.random() < 0.5:
        # the same interface name declared a second time on another class
        d = rng.choice(idefs)
        dup = [list(p) for p in d[1]]
        for p in dup:       # same names (so that every DBusProperty still resolves), other access / emits
            p[2], p[3] = rng.choice([(1, 0), (1, 1), (0, 1)])
            p[4] = rng.choice([0, 1, 2])
        classes[rng.randrange(n)][0].append([d[0], dup])
    # DBusProperty attributes: most properties bound once, some twice, some not at all
    order = [i for c in classes for i in c[0]]      # getInterfaces() order
    a = 0
    for iname, props in idefs:
        for p in props:
            times = rng.choice([0, 1, 1, 1, 1, 2])
            for _ in range(times):
                first = next(i[0] for i in order if any(q[0] == p[0] for q in i[1]))
                explicit = iname if (first != iname or rng.random() < 0.5) else None
                classes[rng.randrange(n)][1].append(['a%d' % a, p[0], explicit])
                a += 1
    if not wf and rng.random() < 0.6:
        # an attribute name reused further down the hierarchy (shadowing)
        pool = [d for c in classes for d in c[1]]
        if len(pool) >= 2:
            x, y = rng.sample(pool, 2)
            cx = next(k for k, c in enumerate(classes) if x in c[1])
            cy = next(k for k, c in enumerate(classes) if y in c[1])
            sg = {a: p[1] for a, _, p in bound(classes)}
            # only between properties whose values every coercion is modelled for (no float, no container)
            if cx != cy and all(sg.get(d[0], 'd') in 'bynqiuxtsog' for d in (x, y)):
                y[0] = x[0]
    for c in classes:
        rng.shuffle(c[1])
        for d in c[1]:
            # how the descriptor reaches its class: class body / setattr before the first instance / after it
            d.append(rng.choice([0, 0, 0, 0, 0, 0, 1, 1, 2]))
    if rng.random() < 0.08:
        # a descriptor attached once the caches exist: txdbus never resolves it; nothing uses it
        iname, props = rng.choice(idefs)
        classes[rng.randrange(n)][1].append(['late0', props[0][0], iname, 3])
    return shape, classes


def bound(classes):
    """[(attr, iface, prop)] as the harness generator understands the declarations (first interface wins)"""
    order = [i for c in classes for i in c[0]]
    out = []
    for c in classes:
        for d in c[1]:
            attr, pname, iname = d[0], d[1], d[2]
            if dp_when(d) == 3:
                continue
            for i in order:
                if (iname is None or i[0] == iname):
                    p = next((q for q in i[1] if q[0] == pname), None)
                    if p is not None:
                        out.append((attr, i[0], p))
                        break
    return out


SAFE = [[0, 7], [0, -1], [3, b'abc'], [3, b''], [1, 1], [9, ord('q'), [0, 7]]]


def gen_value(rng, sigs, strict, remote):
    """sigs: declared types the value may land on (one for a plain name, several when '' is ambiguous)"""
    sigs = sorted(set(sigs))
    if len(sigs) != 1:
        return rng.choice(SAFE)          # nothing declared, or ambiguous: a value every coercion is modelled for
    if strict or rng.random() < 0.6:
        return gen_conforming(rng, sigs[0], for_set=remote)
    return gen_nonconforming(rng, sigs[0], remote)


def targets(b, qi, qn):
    """declared types of the properties a call naming (qi, qn) can reach"""
    return [p[1] for _, i, p in b if p[0] == qn and (qi == '' or i == qi)]


def gen_history(rng, classes, strict, length):
    b = bound(classes)
    hist = []
    if not b:
        return [[1, 1], [4, 'org.ex.A', 1], [2, 'org.ex.A', 'P', 1]]
    inames = sorted({i for _, i, _ in b})
    attr_sig = {}
    for attr, iname, p in b:
        attr_sig.setdefault(attr, p[1])      # a shadowed name reaches the most derived descriptor
    pre = list(b)
    rng.shuffle(pre)
    for attr, iname, p in pre:
        if rng.random() < 0.9:
            hist.append([0, attr, gen_value(rng, [attr_sig[attr]], strict, False)])
    if rng.random() < 0.03:
        attr, iname, p = rng.choice(b)
        hist.append([2, iname, p[0], 1])          # remote call before export
    two = rng.random() < 0.3                       # this history uses the second connection as well
    on = set()

    def conn():
        if on and rng.random() < 0.9:
            return rng.choice(sorted(on))
        return rng.choice([1, 2]) if two else 1

    c0 = rng.choice([1, 2]) if two else 1
    hist.append([1, c0])
    on.add(c0)
    for _ in range(length):
        r = rng.random()
        attr, iname, p = rng.choice(b)
        wi = rng.random()
        qi = iname if wi < 0.85 else ('' if wi < 0.92 else rng.choice(WRONG_IFACES + inames))
        qn = p[0] if rng.random() < 0.9 else rng.choice(WRONG_PNAMES + PNAME_POOL)
        if r < 0.28:
            hist.append([0, attr, gen_value(rng, [attr_sig[attr]], strict, False)])
        elif r < 0.53:
            hist.append([2, qi, qn, conn()])
        elif r < 0.75:
            c = conn()
            hist.append([3, qi, qn, gen_value(rng, targets(b, qi, qn), strict, True), c])
            if rng.random() < 0.6:
                hist.append([2, qi, qn, c])
        elif r < 0.92:
            hist.append([4, rng.choice(inames) if rng.random() < 0.8 else rng.choice(WRONG_IFACES), conn()])
        elif r < 0.96 or not two:
            c = rng.choice([1, 2]) if two else 1
            hist.append([1, c])
            on.add(c)
        else:
            c = rng.choice([1, 2])
            hist.append([5, c])
            on.discard(c)
    return hist


HANDLER_CLASSES = [[[['org.ex.A', [['P', 'u', 1, 1, 1], ['Q', 's', 1, 1, 0], ['V', 'i', 1, 1, 2]]]],
                    [['p', 'P', None, 0], ['q', 'Q', None, 1], ['v', 'V', None, 0]]]]


def gen_handlers(depth):
    """every order of export / unexport on two connections up to `depth` events; after each event a local
    assignment and, on each connection, a Set and a Get of the notifying property, an assignment of a
    non-notifying and of an invalidating one"""
    import itertools
    events = [[1, 1], [1, 2], [5, 1], [5, 2]]
    z = 10
    for n in range(1, depth + 1):
        for seq in itertools.product(events, repeat=n):
            hist = [[0, 'p', [0, 1]], [0, 'q', [3, b'a']], [0, 'v', [0, 1]]]
            for ev in seq:
                z += 1
                hist += [list(ev), [0, 'p', [0, z]], [3, 'org.ex.A', 'P', [9, ord('u'), [0, z + 1000]], 1],
                         [3, 'org.ex.A', 'P', [9, ord('u'), [0, z + 2000]], 2], [2, 'org.ex.A', 'P', 1],
                         [2, 'org.ex.A', 'P', 2], [0, 'q', [3, b'b']], [0, 'v', [0, z]], [4, 'org.ex.A', 2]]
            yield [0, HANDLER_CLASSES, hist, 1]


def gen_matrix(rng):
    """exhaustive small scope: one property, every basic type x (readable, writeable) x emits, a fixed history"""
    for sig in BASIC:
        for r, w in ((1, 0), (1, 1), (0, 1), (0, 0)):
            for e in (0, 1, 2):
                for explicit in (None, 'org.ex.A'):
                    v1 = gen_conforming(rng, sig)
                    v2 = gen_conforming(rng, sig, for_set=True)
                    v3 = gen_conforming(rng, sig)
                    classes = [[[['org.ex.A', [['P', sig, r, w, e]]]], [['a0', 'P', explicit]]]]
                    hist = [[0, 'a0', v1], [1], [2, 'org.ex.A', 'P'], [4, 'org.ex.A'], [3, 'org.ex.A', 'P', v2],
                            [2, 'org.ex.A', 'P'], [2, '', 'P'], [0, 'a0', v3], [2, 'org.ex.A', 'P'], [4, 'org.ex.A'],
                            [2, 'org.ex.A', 'Z'], [2, 'org.ex.Nope', 'P'], [3, 'org.ex.A', 'Z', v2], [3, 'org.ex.Nope', 'P', v2],
                            [4, 'org.ex.Nope'], [4, '']]
                    yield [0, classes, hist, 1]


def gen_fixed():
    """the shapes behind D15, D40, D41, D42 and the same property name on two interfaces"""
    u = lambda z: [9, ord('u'), [0, z]]
    # D15: properties of one interface bound on base and on subclass
    yield [0, [[[], [['a', 'A', None]]],
               [[['org.ex.A', [['A', 's', 1, 1, 1], ['B', 'u', 1, 1, 1], ['W', 'i', 0, 1, 0]]]], [['b', 'B', None], ['w', 'W', None]]]],
           [[0, 'a', [3, b'x']], [0, 'b', [0, 5]], [0, 'w', [0, 1]], [1], [4, 'org.ex.A'], [2, 'org.ex.A', 'B'], [2, 'org.ex.A', 'W']], 1]
    # D40: interface + name concatenations coincide
    yield [0, [[[['x.y', [['zP', 's', 1, 1, 0]]], ['x.yz', [['P', 's', 1, 1, 0]]]], [['p1', 'zP', None], ['p2', 'P', None]]]],
           [[0, 'p1', [3, b'one']], [0, 'p2', [3, b'two']], [1], [2, 'x.y', 'zP'], [2, 'x.yz', 'P'], [3, 'x.y', 'zP', [3, b'three']],
            [2, 'x.yz', 'P'], [4, 'x.y'], [4, 'x.yz']], 1]
    # D41: an unsigned value above 2^31 on an emitting property
    yield [0, [[[['org.ex.A', [['B', 'u', 1, 1, 1], ['T', 't', 1, 1, 1]]]], [['b', 'B', None], ['t', 'T', None]]]],
           [[0, 'b', [0, 1]], [0, 't', [0, 1]], [1], [0, 'b', [0, 3000000000]], [2, 'org.ex.A', 'B'], [3, 'org.ex.A', 'B', u(4000000000)],
            [2, 'org.ex.A', 'B'], [3, 'org.ex.A', 'T', [9, ord('t'), [0, 2**63]]], [2, 'org.ex.A', 'T']], 1]
    # D42: descriptor of a base class used before its cache exists, same property name bound in the subclass
    for explicit in ('org.ex.B', None):
        yield [0, [[[['org.ex.A', [['P', 's', 1, 1, 1]]]] if explicit else [], [['p1', 'P', 'org.ex.A' if explicit else None]]],
                   [[['org.ex.B', [['P', 's', 1, 1, 1]]]] + ([] if explicit else [['org.ex.A', [['Q', 's', 1, 1, 1]]]]),
                    [['p2', 'P', explicit]]]],
               [[0, 'p2', [3, b'two']], [0, 'p1', [3, b'one']], [0, 'p2', [3, b'again']], [1], [2, 'org.ex.B', 'P'],
                [2, 'org.ex.A', 'P'], [2, '', 'P'], [4, 'org.ex.B']], 1]
    # properties generated from the interface description: descriptors attached with setattr after type()
    for when in (1, 2):
        yield [0, [[[['org.ex.T', [['Target', 'q', 1, 1, 1], ['Current', 'n', 1, 0, 0], ['Mode', 's', 1, 1, 1], ['Pin', 'u', 0, 1, 0]]]],
                    [['mode', 'Mode', None, 0], ['target', 'Target', 'org.ex.T', when], ['current', 'Current', 'org.ex.T', when],
                     ['pin', 'Pin', 'org.ex.T', when]]]],
               [[0, 'mode', [3, b'auto']], [0, 'target', [0, 21]], [0, 'current', [0, -3]], [0, 'pin', [0, 1234]], [1, 1],
                [2, 'org.ex.T', 'Target', 1], [2, 'org.ex.T', 'Current', 1], [2, 'org.ex.T', 'Pin', 1], [4, 'org.ex.T', 1],
                [3, 'org.ex.T', 'Target', [9, ord('q'), [0, 19]], 1], [2, 'org.ex.T', 'Target', 1], [0, 'target', [0, 23]],
                [3, 'org.ex.T', 'Pin', [9, ord('u'), [0, 1]], 1], [4, 'org.ex.T', 1]], 1]
    # an object moved from connection 1 to connection 2, in both orders; unexported from its only connection
    for seq in ([[1, 2], [5, 1]], [[5, 1], [1, 2]], [[5, 1]], [[1, 2], [5, 2]]):
        yield [0, HANDLER_CLASSES,
               [[0, 'p', [0, 1]], [0, 'q', [3, b'a']], [0, 'v', [0, 1]], [1, 1], [0, 'p', [0, 2]]] + seq +
               [[0, 'p', [0, 3]], [3, 'org.ex.A', 'P', [9, ord('u'), [0, 4]], 2], [3, 'org.ex.A', 'P', [9, ord('u'), [0, 5]], 1],
                [2, 'org.ex.A', 'P', 2], [2, 'org.ex.A', 'P', 1], [4, 'org.ex.A', 2], [0, 'q', [3, b'b']], [5, 1], [5, 2]], 1]
    # wrong-typed Set, unassigned integer property
    yield [0, [[[['org.ex.A', [['B', 'u', 1, 1, 0], ['S', 's', 1, 1, 1]]]], [['b', 'B', None], ['s', 'S', None]]]],
           [[1], [2, 'org.ex.A', 'B'], [4, 'org.ex.A'], [0, 'b', [0, 1]], [0, 's', [3, b'x']], [1], [3, 'org.ex.A', 'B', [3, b'abc']],
            [2, 'org.ex.A', 'B'], [3, 'org.ex.A', 'S', [0, 5]], [2, 'org.ex.A', 'S'], [4, 'org.ex.A']], 0]


def gen_random(ctx, count):
    rng = ctx.rng
    for _ in range(count):
        wf = rng.random() < 0.93
        shape, classes = gen_hier(rng, wf)
        strict = 1 if rng.random() < 0.8 else 0
        yield [shape, classes, gen_history(rng, classes, strict, rng.randint(4, 12)), strict]


def make_closed(shape, classes, j):
    """move to the most derived class every descriptor that class j could not resolve on its own as the whole
    hierarchy does (class 0 sees every interface; where a descriptor sits does not change what it names)"""
    n = len(classes)
    case = [shape, classes]
    idxs, full = mro_idx(shape, n, j), mro_idx(shape, n, 0)
    for k in idxs:
        if k == 0:
            continue
        for d in list(classes[k][1]):
            r = resolve(classes, idxs, d)
            if r is None or r != resolve(classes, full, d):
                classes[k][1].remove(d)
                classes[0][1].append(d)
    return closed(case, j)


def gen_family(ctx, count):
    """several objects of ONE hierarchy: instances of ancestor classes (and second instances of the most derived
    class) whose histories run before the main object exists, or after its history"""
    rng = ctx.rng
    made = 0
    while made < count:
        shape, classes = gen_hier(rng, True)
        n = len(classes)
        if n < 2:
            continue
        for c in classes:
            c[1][:] = [d[:3] + [0] for d in c[1] if dp_when(d) != 3]
        strict = 1 if rng.random() < 0.8 else 0
        k = rng.choice([1, 1, 1, 2, 3])
        js = [rng.randrange(1, n) if rng.random() < 0.85 else 0 for _ in range(k)]
        if not all(make_closed(shape, classes, j) for j in js) or not all(closed([shape, classes], j) for j in js):
            continue
        # mostly: every other object first (the classes are first used through an ancestor's instance)
        r = rng.random()
        others = []
        for j in js:
            sub = [classes[i] for i in mro_idx(shape, n, j)]
            after = 0 if r < 0.6 else (1 if r < 0.75 else rng.randrange(2))
            others.append([j, gen_history(rng, sub, strict, rng.randint(1, 6)), after])
        yield [shape, classes, gen_history(rng, classes, strict, rng.randint(4, 10)), strict, others]
        made += 1


def gen_family_fixed():
    """two- and three-level hierarchies in which every level declares an interface and binds its properties; an
    instance of each ancestor class (or a second instance of the same class) used first / used last"""
    u = lambda z: [9, ord('u'), [0, z]]
    base = [[['org.ex.Base', [['Name', 's', 1, 1, 0]]]], [['name', 'Name', None, 0]]]
    mid = [[['org.ex.Mid', [['Count', 'u', 1, 1, 1], ['Pin', 'i', 0, 1, 0]]]], [['count', 'Count', 'org.ex.Mid', 0], ['pin', 'Pin', None, 0]]]
    ext = [[['org.ex.Ext', [['Level', 'u', 1, 1, 1], ['Quiet', 'n', 1, 0, 0], ['Secret', 's', 0, 1, 0]]]],
           [['level', 'Level', None, 0], ['quiet', 'Quiet', 'org.ex.Ext', 0], ['secret', 'Secret', None, 0]]]
    h_base = [[0, 'name', [3, b'base']], [1, 1], [2, 'org.ex.Base', 'Name', 1], [4, 'org.ex.Base', 1]]
    h_mid = [[0, 'name', [3, b'mid']], [0, 'count', [0, 1]], [1, 1], [0, 'count', [0, 2]], [2, 'org.ex.Mid', 'Count', 1],
             [4, 'org.ex.Mid', 1], [3, 'org.ex.Mid', 'Pin', [0, 4], 1]]
    h_ext = [[0, 'name', [3, b'ext']], [0, 'quiet', [0, 0]], [0, 'secret', [3, b'']], [0, 'level', [0, 0]], [1, 1],
             [0, 'name', [3, b'ext2']], [0, 'quiet', [0, -3]], [0, 'secret', [3, b'hush']], [0, 'level', [0, 5]],
             [2, 'org.ex.Ext', 'Level', 1], [2, 'org.ex.Ext', 'Quiet', 1], [3, 'org.ex.Ext', 'Level', u(9), 1],
             [2, 'org.ex.Ext', 'Level', 1], [3, 'org.ex.Ext', 'Quiet', [9, ord('n'), [0, 1]], 1], [2, 'org.ex.Ext', 'Secret', 1],
             [3, 'org.ex.Ext', 'Secret', [3, b'new'], 1], [4, 'org.ex.Ext', 1], [4, 'org.ex.Base', 1], [2, 'org.ex.Base', 'Name', 1]]
    h_ext3 = h_ext + [[2, 'org.ex.Mid', 'Count', 1], [0, 'count', [0, 7]], [4, 'org.ex.Mid', 1]]
    for after in (0, 1):
        yield [0, [ext, base], h_ext, 1, [[1, h_base, after]]]
        yield [0, [ext, base], h_ext, 1, [[0, h_ext[:9], after]]]
        yield [0, [ext, mid, base], h_ext3, 1, [[2, h_base, after]]]
        yield [0, [ext, mid, base], h_ext3, 1, [[1, h_mid, after]]]
        yield [0, [ext, mid, base], h_ext3, 1, [[2, h_base, after], [1, h_mid, after]]]
        yield [0, [ext, mid, base], h_ext3, 1, [[1, h_mid, after], [2, h_base, 1 - after]]]
    # diamond: each side class used on its own first
    left = [[['org.ex.L', [['P', 'u', 1, 1, 1]]]], [['lp', 'P', 'org.ex.L', 0]]]
    right = [[['org.ex.R', [['P', 's', 1, 1, 1]]]], [['rp', 'P', 'org.ex.R', 0]]]
    h_d = [[0, 'name', [3, b'd']], [0, 'lp', [0, 1]], [0, 'rp', [3, b'r']], [0, 'level', [0, 2]], [1, 1], [0, 'lp', [0, 3]],
           [2, 'org.ex.L', 'P', 1], [2, 'org.ex.R', 'P', 1], [2, 'org.ex.Ext', 'Level', 1], [4, 'org.ex.Ext', 1], [4, 'org.ex.L', 1],
           [3, 'org.ex.R', 'P', [3, b'x'], 1], [2, 'org.ex.R', 'P', 1]]
    for js in ([1], [2], [3], [1, 2], [2, 1, 3]):
        hs = {1: [[0, 'lp', [0, 9]], [1, 1], [2, 'org.ex.L', 'P', 1]], 2: [[0, 'rp', [3, b'q']], [1, 1], [4, 'org.ex.R', 1]], 3: h_base}
        yield [1, [ext, left, right, base], h_d, 1, [[j, hs[j], 0] for j in js]]


def run(ctx, res):
    n = ctx.n(1000, 20000)
    res.rule = ('(a) exhaustive matrix: one property of each of the 12 basic types x (readable, writeable) in 4 combinations x '
                'emitsOnChange in (False, True, invalidates) x interface given / inferred, under a fixed 16-step history with '
                'right and wrong names (288 cases); (b) the fixed shapes behind D15, D40, D41, D42, wrong-typed Set and '
                'unassigned properties; (c) %d random class hierarchies (1-4 classes, chain or diamond, 1-3 interfaces placed on '
                'any class, same property name on several interfaces, DBusProperty attributes on any class with and without '
                'an explicit interface, 7%% with a repeated interface name or shadowed attribute) with histories of local '
                'assignment before and after export, Get / Set / GetAll with right, empty and wrong names, 20%% of them with '
                'values of the wrong type; a third of the descriptors are attached with setattr after type() (before or after the '
                'first instance), 30%% of the histories export / unexport on two connections; (d) every order of export / '
                'unexport on two connections up to %d events (%d cases), each event followed by a local assignment, a Set and a '
                'Get on each connection, assignments of a silent and an invalidating property and a GetAll, plus the fixed '
                'move-between-connections and generated-descriptor shapes; (e) SEVERAL OBJECTS OF ONE HIERARCHY: %d random '
                'hierarchies of 2-4 classes (as in (c), every instantiated class closed) with 1-3 further objects - instances '
                'of ancestor classes (85%%) or second instances of the most derived class - each with a history of its own on '
                'connections of its own, run before the main object is created (60%%), after its history (15%%) or mixed, '
                'plus 17 fixed two- / three-level and diamond families in both orders; every object is compared with the '
                'model and judged against the declarations in the MRO of its own class. Every operation is one evaluation; a case is '
                'non-trivial if it makes a remote call; distinct by hash' % (n, ctx.n(3, 4), sum(4 ** k for k in range(1, ctx.n(3, 4) + 1)),
                                                                            ctx.n(300, 5000)))
    evaluate(ctx, list(gen_matrix(ctx.rng)), res)
    evaluate(ctx, list(gen_fixed()), res)
    evaluate(ctx, list(gen_handlers(ctx.n(3, 4))), res)
    evaluate(ctx, list(gen_family_fixed()), res)
    chunk = 2000
    left = n
    while left > 0:
        evaluate(ctx, list(gen_random(ctx, min(chunk, left))), res)
        left -= chunk
    left = ctx.n(300, 5000)
    while left > 0:
        evaluate(ctx, list(gen_family(ctx, min(chunk, left))), res)
        left -= chunk
    res.exhaustive = False
    for c in list(gen_fixed())[:3]:
        res.sample(c)
