"""C18 correspondence: the five validators vs Model/Validators.v (model) and
Spec/Grammar.v (oracle), plus the message constructors."""
import itertools

from harness import common

ASSUMPTIONS = [
    'str.isdigit / regex \\d on non-ASCII code points are not modelled; every validator rejects any non-ASCII '
    'code point through its character-class regex (probed into Generated.v), and the alphabet below contains '
    'non-ASCII digits so a change there shows as a disagreement',
]

KINDS = ['path', 'interface', 'error', 'bus', 'member']
ALPHABET = ['a', '1', '_', '.', '-', ':', '/', 'é', ' ']
EXTRA = ['Z', '0', '9', '٣', '²', '\n', '\x00', '@', '[', '`', '{', 'A', 'z']


def impl_accepts(marshal, error, kind, s):
    f = [marshal.validateObjectPath, marshal.validateInterfaceName, marshal.validateErrorName,
         marshal.validateBusName, marshal.validateMemberName][kind]
    try:
        f(s)
        return 1
    except error.MarshallingError:
        return 0
    except Exception as e:   # any other exception is not "a marshalling error"
        return 'exc:' + type(e).__name__


def gen_cases(ctx):
    rng = ctx.rng
    maxlen = ctx.n(5, 6)
    for n in range(0, maxlen + 1):
        for t in itertools.product(ALPHABET, repeat=n):
            yield ''.join(t)
    # every string of length <= 3 over the extended alphabet
    ext = ALPHABET[:7] + EXTRA
    for n in range(1, 4):
        for t in itertools.product(ext, repeat=n):
            yield ''.join(t)
    # the 255/256 boundary for each kind
    for total in (253, 254, 255, 256, 257):
        yield 'a.' + 'b' * (total - 2)
        yield ':1.' + '2' * (total - 3)
        yield 'm' * total
        yield '/' + 'p' * (total - 1)
        yield ('ab.' * 100)[:total - 1] + 'c'
    # random structured names: elements joined by a separator, then mutated
    elems = ['a', 'B1', '_x', '9', '1a', '', 'a-b', 'org', 'freedesktop', 'DBus', 'x' * 60, '٣', 'a:b', ' ']
    for _ in range(ctx.n(20000, 200000)):
        k = rng.choice([1, 2, 2, 3, 3, 4, 6])
        sep = rng.choice(['.', '.', '.', '/', '/'])
        s = sep.join(rng.choice(elems) for _ in range(k))
        r = rng.random()
        if r < 0.25:
            s = ':' + s
        elif r < 0.5:
            s = '/' + s
        elif r < 0.55:
            s = s + sep
        elif r < 0.6:
            i = rng.randrange(len(s) + 1)
            s = s[:i] + rng.choice(ext) + s[i:]
        yield s


def evaluate(ctx, cases, res):
    from txdbus import marshal, error
    cases = list(cases)
    lines = ['(18 %s)' % common.dump(s) for s in cases]
    outs = common.run_model(lines)
    legacy_diff = 0
    dist = {'accepted': [0] * 5, 'len_hist': {}}
    for s, o in zip(cases, outs):
        if o == [-1]:
            raise RuntimeError('model rejected input %r' % (s,))
        key = min(len(s), 10)
        dist['len_hist'][key] = dist['len_hist'].get(key, 0) + 1
        for k in range(5):
            m, l, g = o[k]
            i = impl_accepts(marshal, error, k, s)
            case = [KINDS[k], s]
            res.count(case, nontrivial=len(s) > 0)
            if i == 1:
                dist['accepted'][k] += 1
            if m != l:
                legacy_diff += 1
            if i != m:
                res.disagree(case, i, m)
            if i != g:
                res.violate(case, 'validator %s the string but the DBus grammar %s it'
                            % ('accepts' if i == 1 else ('raises %s on' % i if i != 0 else 'rejects'),
                               'accepts' if g else 'rejects'),
                            '%s:%s-outside-grammar' % (KINDS[k], 'accepts' if i == 1 else 'rejects'))
    res.extra['input_distribution'] = dist
    res.extra['legacy_variants_distinguished'] = legacy_diff
    for s in cases[:3] + cases[len(cases) // 2: len(cases) // 2 + 2]:
        res.sample(['all five validators', s])


def run(ctx, res):
    res.rule = ('every string of length <= %d over the 9-class alphabet %r, every string of length <= 3 over an '
                'extended alphabet, the 253..257 length boundary, and random structured/mutated names; each fed to '
                'all five validators; a case is (validator, string); non-trivial = non-empty string; distinct by hash'
                % (ctx.n(5, 6), ALPHABET))
    evaluate(ctx, gen_cases(ctx), res)
    res.exhaustive = True
    res.extra['exhaustive_scope'] = 'strings of length <= %d over the 9-class alphabet (plus random beyond)' % ctx.n(5, 6)
