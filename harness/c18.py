"""C18 correspondence: the five validators vs Model/Validators.v (model) and
Spec/Grammar.v (oracle), plus the message constructors."""
import itertools

from harness import common

ASSUMPTIONS = [
    'str.isdigit / regex \\d on non-ASCII code points are not modelled; every validator rejects any non-ASCII '
    'code point through its character-class regex (probed into Generated.v), and the alphabet below contains '
    'non-ASCII digits so a change there shows as a disagreement',
]

KINDS = ['path', 'interface', 'error', 'bus', 'member']
ALPHABET = ['a', '1', '_', '.', '-', ':', '/', 'é', ' ']
EXTRA = ['Z', '0', '9', '٣', '²', '\n', '\x00', '@', '[', '`', '{', 'A', 'z']


def impl_accepts(marshal, error, kind, s):
    f = [marshal.validateObjectPath, marshal.validateInterfaceName, marshal.validateErrorName,
         marshal.validateBusName, marshal.validateMemberName][kind]
    try:
        f(s)
        return 1
    except error.MarshallingError:
        return 0
    except Exception as e:   # any other exception is not "a marshalling error"
        return 'exc:' + type(e).__name__


def unflagged_high():
    """code points above 0x7f that one of the tree's character-class regexes does NOT flag (none on a correct tree; the
    regenerated table then breaks its lemma, and these are the inputs on which the validators can be shown to go wrong)"""
    from txdbus import marshal
    allhigh = ''.join(chr(c) for c in range(0x80, 0x110000) if not 0xD800 <= c <= 0xDFFF)
    out = set()
    for rx in ('invalid_obj_path_re', 'if_re', 'bus_re', 'mbr_re'):
        r = getattr(marshal, rx, None)
        if r is not None:
            out.update(r.sub('', allhigh)[:6])
    return sorted(out)


def gen_cases(ctx):
    rng = ctx.rng
    maxlen = ctx.n(5, 6)
    for ch in unflagged_high():
        for s in (ch, 'a' + ch, ch + 'a', 'a.' + ch, ch + '.b', 'a' + ch + '.b', '/' + ch, '/a/' + ch + 'b', ':1.' + ch, 'a.b' + ch,
                  ch * 200 + '.b', 'm' + ch * 199):
            yield s
    for n in range(0, maxlen + 1):
        for t in itertools.product(ALPHABET, repeat=n):
            yield ''.join(t)
    # every string of length <= 3 over the extended alphabet
    ext = ALPHABET[:7] + EXTRA
    for n in range(1, 4):
        for t in itertools.product(ext, repeat=n):
            yield ''.join(t)
    # the 255/256 boundary for each kind
    for total in (253, 254, 255, 256, 257):
        yield 'a.' + 'b' * (total - 2)
        yield ':1.' + '2' * (total - 3)
        yield 'm' * total
        yield '/' + 'p' * (total - 1)
        yield ('ab.' * 100)[:total - 1] + 'c'
    # random structured names: elements joined by a separator, then mutated
    elems = ['a', 'B1', '_x', '9', '1a', '', 'a-b', 'org', 'freedesktop', 'DBus', 'x' * 60, '٣', 'a:b', ' ']
    for _ in range(ctx.n(20000, 200000)):
        k = rng.choice([1, 2, 2, 3, 3, 4, 6])
        sep = rng.choice(['.', '.', '.', '/', '/'])
        s = sep.join(rng.choice(elems) for _ in range(k))
        r = rng.random()
        if r < 0.25:
            s = ':' + s
        elif r < 0.5:
            s = '/' + s
        elif r < 0.55:
            s = s + sep
        elif r < 0.6:
            i = rng.randrange(len(s) + 1)
            s = s[:i] + rng.choice(ext) + s[i:]
        yield s


ROLES = [  # (role, validator kind, constructor taking the string in that role)
    ('call.path', 0), ('call.interface', 1), ('call.member', 4), ('call.destination', 3),
    ('signal.path', 0), ('signal.interface', 1), ('signal.member', 4), ('signal.destination', 3),
    ('error.error_name', 2), ('error.destination', 3), ('return.destination', 3),
]


def construct(message, role, s):
    """Build a message with s in the given role, every other coordinate valid. 1 = constructed, 0 = MarshallingError."""
    from txdbus import error
    try:
        if role == 'call.path':
            m = message.MethodCallMessage(s, 'M')
        elif role == 'call.interface':
            m = message.MethodCallMessage('/a', 'M', interface=s)
        elif role == 'call.member':
            m = message.MethodCallMessage('/a', s)
        elif role == 'call.destination':
            m = message.MethodCallMessage('/a', 'M', destination=s)
        elif role == 'signal.path':
            m = message.SignalMessage(s, 'M', 'a.b')
        elif role == 'signal.interface':
            m = message.SignalMessage('/a', 'M', s)
        elif role == 'signal.member':
            m = message.SignalMessage('/a', s, 'a.b')
        elif role == 'signal.destination':
            m = message.SignalMessage('/a', 'M', 'a.b', destination=s)
        elif role == 'error.error_name':
            m = message.ErrorMessage(s, 1)
        elif role == 'error.destination':
            m = message.ErrorMessage('a.Err', 1, destination=s)
        elif role == 'return.destination':
            m = message.MethodReturnMessage(1, destination=s)
        else:
            raise ValueError(role)
        return 1 if m.rawMessage is not None else 'no-bytes'
    except error.MarshallingError:
        return 0
    except Exception as e:
        return 'exc:' + type(e).__name__


def evaluate_ctor(ctx, cases, res):
    """cases: ['ctor', s, [role indices in the order to try]]: the same string is offered to the message
    constructors in several roles, one after the other in one process (a validation result remembered from one
    role must not leak into another); each must construct iff the grammar of that role's validator accepts."""
    from txdbus import message
    if not cases:
        return
    outs = common.run_model(['(18 %s)' % common.dump(c[1]) for c in cases])
    n = 0
    for c, o in zip(cases, outs):
        s = c[1]
        for ri in c[2]:
            role, kind = ROLES[ri]
            g = o[kind][2]
            i = construct(message, role, s)
            n += 1
            res.count(['ctor', role, s], nontrivial=True)
            if i != g:
                res.violate(['ctor', s, c[2][:c[2].index(ri) + 1]],
                            'constructor %s with %r as %s (tried after roles %r) but the grammar %s it'
                            % ('succeeds' if i == 1 else ('raises %s' % i if i != 0 else 'refuses'), s, role,
                               [ROLES[x][0] for x in c[2][:c[2].index(ri)]], 'accepts' if g else 'rejects'),
                            'constructor:%s:%s' % (role, 'carries-invalid' if i == 1 else 'refuses-valid'))
    res.extra['constructor_attempts'] = res.extra.get('constructor_attempts', 0) + n


def gen_ctor_cases(ctx):
    rng = ctx.rng
    pool = ['Ping', 'a.b', 'a.b.c', ':1.42', ':1.2.3', 'org.example.my-app', 'a-b.c', '/a', '/', '/a/b', 'a', 'M1', '_x', 'a_b.c1',
            'a.b-c', '1a', 'a.1b', ':a.1', '', '.', 'a.', ':1.', 'a..b', '/a/', '//', 'a b', 'a.b!', 'é.b', 'x' * 255, 'a.' + 'b' * 253,
            'a.' + 'b' * 254, ':' + '1.' * 127 + '1', 'm' * 256, '/' + 'p' * 300, 'org.freedesktop.DBus', 'org.freedesktop.DBus.Error.Failed']
    for n in range(0, ctx.n(3, 4)):
        for t in itertools.product(ALPHABET[:7], repeat=n):
            pool.append(''.join(t))
    for s in pool:
        order = list(range(len(ROLES)))
        yield ['ctor', s, order]
        yield ['ctor', s, order[::-1]]
        rng.shuffle(order)
        yield ['ctor', s, list(order)]


def evaluate(ctx, cases, res):
    from txdbus import marshal, error
    cases = list(cases)
    ctor = [c for c in cases if isinstance(c, (list, tuple)) and c and c[0] == 'ctor']
    # a replayed validator case is [kind, string]
    cases = [(c[1] if isinstance(c, (list, tuple)) else c) for c in cases if not (isinstance(c, (list, tuple)) and c and c[0] == 'ctor')]
    evaluate_ctor(ctx, ctor, res)
    if not cases:
        return
    lines = ['(18 %s)' % common.dump(s) for s in cases]
    outs = common.run_model(lines)
    legacy_diff = 0
    dist = {'accepted': [0] * 5, 'len_hist': {}}
    for s, o in zip(cases, outs):
        if o == [-1]:
            raise RuntimeError('model rejected input %r' % (s,))
        key = min(len(s), 10)
        dist['len_hist'][key] = dist['len_hist'].get(key, 0) + 1
        for k in range(5):
            m, l, g = o[k]
            i = impl_accepts(marshal, error, k, s)
            case = [KINDS[k], s]
            res.count(case, nontrivial=len(s) > 0)
            if i == 1:
                dist['accepted'][k] += 1
            if m != l:
                legacy_diff += 1
            if i != m:
                res.disagree(case, i, m)
            if i != g:
                res.violate(case, 'validator %s the string but the DBus grammar %s it'
                            % ('accepts' if i == 1 else ('raises %s on' % i if i != 0 else 'rejects'),
                               'accepts' if g else 'rejects'),
                            '%s:%s-outside-grammar' % (KINDS[k], 'accepts' if i == 1 else 'rejects'))
    res.extra['input_distribution'] = dist
    res.extra['legacy_variants_distinguished'] = legacy_diff
    for s in cases[:3] + cases[len(cases) // 2: len(cases) // 2 + 2]:
        res.sample(['all five validators', s])


def run(ctx, res):
    res.rule = ('every string of length <= %d over the 9-class alphabet %r, every string of length <= 3 over an '
                'extended alphabet, the 253..257 length boundary, and random structured/mutated names; each fed to '
                'all five validators; plus message constructors offered the same string in each of %d roles in three orders (a verdict must not leak between roles); a case is (validator, string) or (constructor role, string); non-trivial = non-empty string; distinct by hash'
                % (ctx.n(5, 6), ALPHABET, len(ROLES)))
    evaluate(ctx, list(gen_cases(ctx)) + list(gen_ctor_cases(ctx)), res)
    res.exhaustive = True
    res.extra['exhaustive_scope'] = 'strings of length <= %d over the 9-class alphabet (plus random beyond)' % ctx.n(5, 6)
