"""Shared harness code: s-expressions, the modelrun client, PRNG, result
containers, known-findings filter.  Imported by check and by harness/cXX.py."""
import hashlib
import json
import os
import random
import subprocess
import sys
import time

VERIF = os.path.dirname(os.path.dirname(os.path.abspath(__file__)))
MODELRUN = os.path.join(VERIF, 'bin', 'modelrun')


# --------------------------------------------------------------------------
# s-expressions: int -> number, bytes -> "hex", str -> bytes (latin-1) or list
# of code points, list/tuple -> (...), bool -> 0/1, None -> ()
def dump(x):
    if x is None:
        return '()'
    if x is True:
        return '1'
    if x is False:
        return '0'
    if isinstance(x, int):
        return str(x)
    if isinstance(x, (bytes, bytearray)):
        return '"' + bytes(x).hex() + '"'
    if isinstance(x, str):
        if all(ord(c) < 256 for c in x):
            return '"' + x.encode('latin-1').hex() + '"'
        return '(' + ' '.join(str(ord(c)) for c in x) + ')'
    if isinstance(x, (list, tuple)):
        return '(' + ' '.join(dump(e) for e in x) + ')'
    raise TypeError('cannot dump %r' % (x,))


def load(s):
    """Parse one s-expression -> nested lists / ints / bytes."""
    pos = 0
    n = len(s)
    stack = [[]]
    while pos < n:
        c = s[pos]
        if c == '(':
            stack.append([])
            pos += 1
        elif c == ')':
            top = stack.pop()
            stack[-1].append(top)
            pos += 1
        elif c == '"':
            e = s.index('"', pos + 1)
            stack[-1].append(bytes.fromhex(s[pos + 1:e]))
            pos = e + 1
        elif c in ' \t\r\n':
            pos += 1
        else:
            e = pos + 1
            while e < n and s[e] not in ' ()"\t\r\n':
                e += 1
            stack[-1].append(int(s[pos:e]))
            pos = e
    assert len(stack) == 1 and len(stack[0]) == 1, s[:200]
    return stack[0][0]


# --------------------------------------------------------------------------
XCHECK = []   # sample of (input line, raw output line) pairs seen by run_model


def run_model(lines, jobs=None, timeout=900):
    """Run modelrun over a list of input lines (strings) -> list of parsed outputs."""
    if not lines:
        return []
    jobs = jobs or min(16, max(1, len(lines) // 200))
    chunks = [lines[i::jobs] for i in range(jobs)]
    procs = []
    for ch in chunks:
        p = subprocess.Popen([MODELRUN], stdin=subprocess.PIPE, stdout=subprocess.PIPE)
        procs.append(p)
    outs = []
    # feed through threads to avoid pipe deadlock
    import threading
    results = [None] * jobs

    def work(i):
        data = ('\n'.join(chunks[i]) + '\n').encode('ascii')
        o, _ = procs[i].communicate(data, timeout=timeout)
        results[i] = o.decode('ascii').split('\n')

    ths = [threading.Thread(target=work, args=(i,)) for i in range(jobs)]
    for t in ths:
        t.start()
    for t in ths:
        t.join()
    out = [None] * len(lines)
    raw = [None] * len(lines)
    for i in range(jobs):
        if procs[i].returncode != 0:
            raise RuntimeError('modelrun exited with %r' % procs[i].returncode)
        res = results[i]
        if len(res) < len(chunks[i]):
            raise RuntimeError('modelrun produced %d lines for %d inputs' % (len(res), len(chunks[i])))
        for j, _ in enumerate(chunks[i]):
            out[i + j * jobs] = load(res[j])
            raw[i + j * jobs] = res[j]
    # keep a spread sample (input line, raw output line) for the thorough tier's
    # in-Coq cross-check of extraction + driver (check: xcheck_extraction)
    n = len(lines)
    for k in sorted({(i * (n - 1)) // 39 for i in range(40)}):
        if len(XCHECK) < 240 and len(lines[k]) <= 1200 and len(raw[k]) <= 4000:
            XCHECK.append((lines[k], raw[k]))
    return out



# --------------------------------------------------------------------------
class Timeout(Exception):
    """raised inside `with time_limit(s)` when the implementation under test does not return in time"""


class time_limit:
    """Wall-clock bound for one call into the implementation under test (main thread only):
    a change that makes the code loop must become a reported failing input, not a hung check."""

    def __init__(self, seconds):
        self.seconds = seconds

    def _fire(self, signum, frame):
        raise Timeout('no result within %.1fs' % self.seconds)

    def __enter__(self):
        import signal
        self._old = signal.signal(signal.SIGALRM, self._fire)
        signal.setitimer(signal.ITIMER_REAL, self.seconds)
        return self

    def __exit__(self, *exc):
        import signal
        signal.setitimer(signal.ITIMER_REAL, 0)
        signal.signal(signal.SIGALRM, self._old)
        return False


class bounded:
    """time_limit + an address-space cap for one call into the implementation under test: a change that makes the
    code loop or allocate without bound becomes an exception at that input (Timeout / MemoryError), not a hung or killed check."""

    def __init__(self, seconds, extra_mb=3000):
        self.t = time_limit(seconds)
        self.extra = extra_mb << 20

    def __enter__(self):
        import resource
        self._old = resource.getrlimit(resource.RLIMIT_AS)
        try:
            with open('/proc/self/statm') as f:
                cur = int(f.read().split()[0]) * resource.getpagesize()
            soft = cur + self.extra
            if self._old[1] != resource.RLIM_INFINITY:
                soft = min(soft, self._old[1])
            resource.setrlimit(resource.RLIMIT_AS, (soft, self._old[1]))
        except Exception:
            self._old = None
        self.t.__enter__()
        return self

    def __exit__(self, *exc):
        self.t.__exit__(*exc)
        if self._old is not None:
            import resource
            resource.setrlimit(resource.RLIMIT_AS, self._old)
        return False


def take(gen, cap):
    """list(gen) but give up (Timeout) after cap items: a generator that never ends must not eat the memory"""
    out = []
    for x in gen:
        out.append(x)
        if len(out) > cap:
            raise Timeout('more than %d items' % cap)
    return out


# --------------------------------------------------------------------------
class Result:
    def __init__(self):
        self.evaluations = 0
        self.keys = set()           # hashes of distinct non-trivial cases
        self.rule = ''
        self.samples = []
        self.disagreements = []     # {'case':..., 'impl':..., 'model':...}
        self.violations = []        # {'case':..., 'why':..., 'signature':...}
        self.extra = {}
        self.traces = 0             # traces validated against the implementation
        self.exhaustive = False

    def count(self, case, nontrivial=True):
        self.evaluations += 1
        if nontrivial:
            self.keys.add(hashlib.sha1(repr(case).encode()).digest()[:8])

    def sample(self, case, limit=5):
        if len(self.samples) < limit:
            self.samples.append(case)

    def disagree(self, case, impl, model, what='model'):
        if len(self.disagreements) < 50:
            self.disagreements.append({'case': case, 'impl': impl, what: model})
        else:
            self.extra['disagreements_dropped'] = self.extra.get('disagreements_dropped', 0) + 1

    def violate(self, case, why, signature):
        if len(self.violations) < 200:
            self.violations.append({'case': case, 'why': why, 'signature': signature})
        else:
            self.extra['violations_dropped'] = self.extra.get('violations_dropped', 0) + 1


class Ctx:
    def __init__(self, prop, tier, seed, repo, replay=None):
        self.prop = prop
        self.tier = tier
        self.seed = seed
        self.repo = repo
        self.rng = random.Random(seed)
        self.replay = replay
        self.t0 = time.time()

    @property
    def quick(self):
        return self.tier == 'quick'

    def n(self, quick, thorough):
        return quick if self.tier == 'quick' else thorough


def load_known_findings():
    p = os.path.join(VERIF, 'known_findings.json')
    if not os.path.exists(p):
        return []
    with open(p) as f:
        return json.load(f).get('findings', [])


def jsonable(x):
    if isinstance(x, (bytes, bytearray)):
        return {'hex': bytes(x).hex()}
    if isinstance(x, (list, tuple)):
        return [jsonable(e) for e in x]
    if isinstance(x, dict):
        return {str(k): jsonable(v) for k, v in x.items()}
    if isinstance(x, (int, str, bool)) or x is None:
        return x
    if isinstance(x, float):
        return repr(x)
    return repr(x)


def unjson(x):
    if isinstance(x, dict) and set(x.keys()) == {'hex'}:
        return bytes.fromhex(x['hex'])
    if isinstance(x, list):
        return [unjson(e) for e in x]
    if isinstance(x, dict):
        return {k: unjson(v) for k, v in x.items()}
    return x


def setup_repo_path(repo):
    """Make `import txdbus` resolve to the tree under test."""
    sys.dont_write_bytecode = True
    for m in list(sys.modules):
        if m == 'txdbus' or m.startswith('txdbus.'):
            del sys.modules[m]
    if repo in sys.path:
        sys.path.remove(repo)
    sys.path.insert(0, repo)
    import txdbus
    assert os.path.dirname(os.path.abspath(txdbus.__file__)) == os.path.join(os.path.abspath(repo), 'txdbus'), txdbus.__file__
