"""C07 correspondence: txdbus.authentication.ClientAuthenticator inside a real
txdbus.protocol.BasicDBusProtocol (client mode, fake transports) vs Model/AuthClient.v
(model) and Spec/AuthClientSpec.v (oracle: session_verdict on what the implementation
did; reference server for the closed-loop handshakes).

A case is [unix, user, keyring, seeds, lines] (open loop: the harness plays an arbitrary
server) or ['loop', unix, user, seeds, [accepted, agrees_fd, ext_challenges], bytewise]
(closed loop against the Coq reference server, run step by step through modelrun), or
['loopnc', unix, user, seeds, cfg, bytewise, kind] (the same with a keyring that CANNOT answer the
server's cookie challenge: kind 'noid' the context file lacks the id, 'missing' no keyring directory,
'others' / 'group' a keyring directory accessible to others / the group, which must not be used).

  keyring  [[context, [[id, cookie], ...]], ...]   files written under $HOME/.dbus-keyrings
  seeds    the values os.urandom(8) returns, in order
  lines    the server's lines (without CRLF), fed under four splittings across reads

Observed from outside: bytes written to the transport (re-cut into the initial raw byte and
CRLF-terminated lines), the first transport.loseConnection(), connectionAuthenticated()
with protocol.guid.  An exception escaping dataReceived before authentication counts as the
connection being dropped; whatever happens after authentication belongs to C04.
The text after ERROR in a line the client sends is not compared."""
import binascii
import hashlib
import itertools
import os
import shutil
import tempfile

from harness import common

ASSUMPTIONS = [
    'open-loop and closed-loop cases: lines are complete and CRLF-terminated, cut into reads at line granularity '
    '(one line per read, two, everything in one read) and one byte per read; over-long lines there are well '
    'past the limit.  Cuts INSIDE lines, inside CRLF and at the 16384/16385 limit (and unterminated remainders '
    'of 16385/16386 bytes) are the separate byte-level cases, compared with Model/Framing.v run at the '
    'ClientAuthenticator instance (Proofs/AuthClientFramingBridge.v); the splitter in general is C04\'s subject',
    'an exception other than DBusAuthenticationFailed escaping dataReceived before authentication (a command '
    'word that is not UTF-8) is the connection being dropped, as Twisted does; after connectionAuthenticated() '
    'nothing more is fed or compared (binary mode, and lines sharing the read with the final one: C04/D03)',
    'the client\'s ERROR text (str of the caught exception) is not compared, only that ERROR is sent',
    'getpass.getuser() is steered through $LOGNAME, the keyring through $HOME, os.urandom is replaced by a '
    'scripted source for the duration of a case; hashlib.sha1 is the real one and the model is handed the '
    'digests it needs (an unknown digest shows up as a disagreement)',
    'the observed session is judged against ClientAuthenticator.preference as the tree under test declares it '
    '(handed to the oracle with each case); that the model uses the same list is the proof obligation C07_tables',
    'loseConnection is recorded once (byte-wise feeding of an over-long line calls it once per further byte)',
    'keyring directory states (mode with group/other bits, foreign owner - chown needs euid 0, otherwise a mode with '
    'other bits stands in -, missing): the client can look nothing up; model and oracle are handed the empty keyring',
    'the reference server of the liveness runs uses fixed GUID, cookie context/id/challenge/cookie; its cookie '
    'is present in the client\'s keyring (the meaning of "accepts DBUS_COOKIE_SHA1" for this user) in the '
    '\'loop\' cases; in the \'loopnc\' cases the keyring cannot answer (context file without the id / no directory / '
    'directory with group or other bits, which holds the cookie but must not be used): the handshake must '
    'complete exactly when the server also accepts EXTERNAL or ANONYMOUS (C07_completes_without_cookie), and '
    'against a DBUS_COOKIE_SHA1-only server the client must close (C07_gives_up_without_cookie)',
]

SIGNATURES = {
    1: 'acts-after-close-or-after-handshake',
    2: 'stall-server-line-unanswered',
    3: 'several-lines-in-answer-to-one',
    4: 'line-outside-protocol-not-closed',
    5: 'rejected-neither-next-mechanism-nor-close',
    6: 'error-neither-next-mechanism-nor-close-nor-begin',
    7: 'opening-not-nul-then-first-mechanism',
    8: 'begin-without-ok-or-before-fd-answer',
    9: 'mechanisms-not-offered-in-preference-order-once',
}

# state of $HOME/.dbus-keyrings (optional sixth element of an open-loop case): a directory the client must not
# use (accessible to group / others, owned by somebody else) or that does not exist means that NO cookie can be
# looked up - for the model and the oracle that is the empty keyring.
KDIR_OK, KDIR_OTHERS, KDIR_GROUP, KDIR_FOREIGN, KDIR_MISSING = 0, 1, 2, 3, 4

SRV_CTX = b'org_freedesktop_general'
SRV_ID = b'42'
SRV_CHALLENGE = b'deadbeef01'
SRV_COOKIE = b'c0ffeec0ffee'
LOOP_KEYRING = [[SRV_CTX, [[b'7', b'00ff'], [b'4210022', b'bad0bad0'], [SRV_ID, SRV_COOKIE]]]]   # an earlier id of which the wanted id is a proper prefix

# closed loop, keyring that cannot answer: the server's context file with other ids only (one of which has the
# wanted id as a proper prefix, one is a proper prefix of it)
NC_KEYRING = [[SRV_CTX, [[b'7', b'00ff'], [b'4210022', b'bad0bad0'], [b'4', b'0badc0de']]]]
# kind -> (keyring files, state of the directory, keyring of the model: 1 other_keyring, 2 no_keyring)
NC_KINDS = {'noid': (NC_KEYRING, KDIR_OK, 1), 'missing': (LOOP_KEYRING, KDIR_MISSING, 2),
            'others': (LOOP_KEYRING, KDIR_OTHERS, 2), 'group': (LOOP_KEYRING, KDIR_GROUP, 2)}


def loop_keyring(c):
    """(keyring files, directory state, model keyring kind) of a closed-loop case"""
    if c[0] == 'loopnc':
        return NC_KINDS[c[6]]
    return LOOP_KEYRING, KDIR_OK, 0


hexl = binascii.hexlify


def nonce_of(seed):
    return hexl(hashlib.sha1(seed).digest())


# --------------------------------------------------------------------------
# the implementation side
class Env:
    """Imports from the tree under test, fake transports, scripted environment."""

    def __init__(self):
        from zope.interface import implementer
        from twisted.internet import interfaces
        import txdbus.protocol as protocol
        from txdbus import authentication
        protocol._is_linux = False
        self.protocol, self.authentication = protocol, authentication

        class Transport:
            disconnecting = False

            def __init__(self):
                self.events = []      # ('w', bytes) | ('close',) | ('authd', guid)
                self.closes = 0

            def write(self, data):
                self.events.append(('w', bytes(data)))

            def writeSequence(self, seq):
                self.events.append(('w', b''.join(seq)))

            def loseConnection(self):
                self.disconnecting = True
                self.closes += 1
                if self.closes == 1:
                    self.events.append(('close',))

        @implementer(interfaces.IUNIXTransport)
        class UnixTransport(Transport):
            def sendFileDescriptor(self, fd):
                self.events.append(('fd', fd))

        class Proto(protocol.BasicDBusProtocol):
            authenticator = authentication.ClientAuthenticator

            def connectionAuthenticated(self):
                self.transport.events.append(('authd', self.guid))

        self.Transport, self.UnixTransport, self.Proto = Transport, UnixTransport, Proto
        self.dirs = {}
        self.saved_env = {k: os.environ.get(k) for k in ('HOME', 'LOGNAME')}
        self.real_urandom = os.urandom
        self.seeds = []

    def home_for(self, keyring, kdir=0):
        key = repr((keyring, kdir))
        d = self.dirs.get(key)
        if d is None:
            d = tempfile.mkdtemp(prefix='c07-home-')
            kd = os.path.join(d, '.dbus-keyrings')
            if kdir != KDIR_MISSING:
                os.mkdir(kd, 0o700)
                for ctx, entries in keyring:
                    with open(os.path.join(kd, ctx.decode('ascii')), 'wb') as f:
                        for i, (cid, cookie) in enumerate(entries):
                            f.write(cid + b' ' + str(1700000000 + i).encode() + b' ' + cookie + b'\n')
                if kdir == KDIR_OTHERS:
                    os.chmod(kd, 0o755)
                elif kdir == KDIR_GROUP:
                    os.chmod(kd, 0o770)
                elif kdir == KDIR_FOREIGN:
                    if os.geteuid() == 0:
                        os.chown(kd, 54321, -1)
                    else:
                        os.chmod(kd, 0o706)
            self.dirs[key] = d
        return d

    def enter(self, user, keyring, seeds, kdir=0):
        os.environ['HOME'] = self.home_for(keyring, kdir)
        os.environ['LOGNAME'] = user.decode('ascii')
        self.seeds = list(seeds)
        os.urandom = self.fake_urandom

    def fake_urandom(self, n):
        if self.seeds:
            return self.seeds.pop(0)[:n].ljust(n, b'\0')
        return b'\xee' * n           # not announced to the model: shows as a disagreement

    def leave(self):
        os.urandom = self.real_urandom

    def close(self):
        os.urandom = self.real_urandom
        for k, v in self.saved_env.items():
            if v is None:
                os.environ.pop(k, None)
            else:
                os.environ[k] = v
        for d in self.dirs.values():
            shutil.rmtree(d, ignore_errors=True)
        self.dirs = {}

    def connect(self, unix):
        t = (self.UnixTransport if unix else self.Transport)()
        p = self.Proto()
        p.makeConnection(t)
        return p, t


def canon_line(l):
    if l == b'ERROR' or l.startswith(b'ERROR '):
        return b'ERROR'
    return l


class Cutter:
    """Turns the transport's event list into tokens: ('raw', b) ('line', l) ('close',) ('authd', guid)."""

    def __init__(self):
        self.buf = b''
        self.any = False
        self.pos = 0

    def drain(self, events, final=False):
        out = []

        def emit(tok):
            out.append(tok)
            self.any = True

        def cut():
            if not self.any and self.buf[:1] == b'\0':
                emit(('raw', b'\0'))
                self.buf = self.buf[1:]
            while b'\r\n' in self.buf:
                l, self.buf = self.buf.split(b'\r\n', 1)
                emit(('line', canon_line(l)))

        while self.pos < len(events):
            e = events[self.pos]
            self.pos += 1
            if e[0] == 'w':
                self.buf += e[1]
            else:
                cut()
                if self.buf:
                    emit(('raw', self.buf))
                    self.buf = b''
                emit(('authd', e[1]) if e[0] == 'authd' else (e[0],))
        cut()
        if final and self.buf:
            emit(('raw', self.buf))
            self.buf = b''
        return out


def chunks_for(lines, mode):
    data = [l + b'\r\n' for l in lines]
    if mode == 0:
        return data
    if mode == 1:
        return [b''.join(data[i:i + 2]) for i in range(0, len(data), 2)]
    if mode == 2:
        return [b''.join(data)] if data else []
    whole = b''.join(data)
    return [whole[i:i + 1] for i in range(len(whole))]


def run_impl(env, unix, lines, mode):
    """-> (init tokens, per-chunk token lists, flat tokens)"""
    p, t = env.connect(unix)
    cut = Cutter()
    init = cut.drain(t.events)
    per = []
    dead = False
    for ch in chunks_for(lines, mode):
        if dead:
            per.append([])
            continue
        try:
            p.dataReceived(ch)
        except Exception:
            if not p._authenticated and not any(e[0] == 'authd' for e in t.events):
                t.loseConnection()          # Twisted drops the connection
            dead = True
        toks = cut.drain(t.events)
        for k, x in enumerate(toks):
            if x[0] == 'authd':
                toks = toks[:k + 1]       # what follows authentication is not this property's subject
                dead = True
                break
        per.append(toks)
    if not dead:
        tail = cut.drain(t.events, final=True)
        if tail:
            if per:
                per[-1] = per[-1] + tail
            else:
                init = init + tail
    flat = list(init)
    for x in per:
        flat.extend(x)
    return init, per, flat


# --------------------------------------------------------------------------
def viol(res, case, why, sig, cap=4):
    """a few cases per signature (the runner keeps 200 violations in all), the rest counted"""
    seen = res.extra.setdefault('violations_by_signature', {})
    seen[sig] = seen.get(sig, 0) + 1
    if seen[sig] <= cap:
        res.violate(case, why, sig)


def tok_sexp(t):
    if t[0] == 'raw':
        return [0, t[1]]
    if t[0] == 'line':
        return [1, t[1]]
    if t[0] == 'close':
        return [2]
    if t[0] == 'authd':
        return [3]
    return [9]


def out_tok(o):
    if o[0] == 0:
        return ('raw', o[1])
    if o[0] == 1:
        return ('line', canon_line(o[1]))
    if o[0] == 2:
        return ('close',)
    if o[0] == 3:
        return ('authd', o[1][0] if o[1] else None)
    return ('?', o)


def sha_table(keyring, nonces, lines):
    """every digest the client may compute for these lines"""
    tab = {}
    cookies = {c for _, es in keyring for _, c in es}
    for l in lines:
        if not l.startswith(b'DATA'):
            continue
        arg = l.split(b' ', 1)[1] if b' ' in l else b''
        try:
            parts = binascii.unhexlify(arg.strip()).split()
        except Exception:
            continue
        if len(parts) != 3:
            continue
        for cc in nonces:
            for c in cookies:
                pre = parts[2] + b':' + cc + b':' + c
                tab[pre] = hexl(hashlib.sha1(pre).digest())
    return [[k, v] for k, v in sorted(tab.items())]


def nontrivial(lines, per):
    sent = sum(1 for x in per for t in x if t[0] == 'line')
    return len(lines) >= 2 and (sent >= 2 or any(t[0] == 'authd' for x in per for t in x))


def evaluate_open(env, cases, res):
    long_lines = any(len(l) > 4000 for c in cases for l in c[4])
    impl = []
    mlines = []
    for c in cases:
        unix, user, keyring, seeds, lines = c[:5]
        kdir = c[5] if len(c) > 5 else KDIR_OK
        nonces = [nonce_of(s) for s in seeds]
        runs = []
        for mode in range(4):
            env.enter(user, keyring, seeds, kdir)
            try:
                runs.append(run_impl(env, bool(unix), lines, mode))
            finally:
                env.leave()
        impl.append(runs)
        init, per, _ = runs[0]
        obs = [[tok_sexp(t) for t in init], [[tok_sexp(t) for t in x] for x in per]]
        if kdir != KDIR_OK:
            keyring = []                    # unusable directory: nothing can be looked up
        mlines.append('(7 0 %s)' % ' '.join(common.dump(x) for x in
                                           [1 if unix else 0, user, keyring, nonces,
                                            sha_table(keyring, nonces, lines), lines, obs,
                                            list(env.authentication.ClientAuthenticator.preference)]))
    outs = common.run_model(mlines, jobs=min(16, max(1, len(mlines) // 100)) if not long_lines else min(16, len(mlines)))
    stats = res.extra.setdefault('open_loop', {'authenticated': 0, 'closed': 0, 'open_end': 0, 'cookie_answers': 0})
    for c, runs, o in zip(cases, impl, outs):
        if not isinstance(o, list) or len(o) != 4:
            res.disagree(c, 'modelrun', o)
            continue
        model, _legacy, v_impl, v_model = o
        m_init = [out_tok(x) for x in model[0]]
        m_per = [[out_tok(x) for x in e] for e in model[1]]
        m_flat = list(m_init)
        for e in m_per:
            m_flat.extend(e)
        init, per, flat = runs[0]
        res.count(c, nontrivial=nontrivial(c[4], per))
        if any(t[0] == 'authd' for t in flat):
            stats['authenticated'] += 1
        elif any(t[0] == 'close' for t in flat):
            stats['closed'] += 1
        else:
            stats['open_end'] += 1
        stats['cookie_answers'] += sum(1 for t in flat if t[0] == 'line' and t[1].startswith(b'DATA '))
        if (init, per) != (m_init, m_per):
            res.disagree(c, {'split': 'line per read', 'init': init, 'per_line': per},
                         {'init': m_init, 'per_line': m_per})
        for mode, name in ((1, 'two lines per read'), (2, 'one read'), (3, 'byte per read')):
            f = runs[mode][2]
            if f != m_flat:
                res.disagree(c, {'split': name, 'flat': f}, {'flat': m_flat})
            if f != flat:
                viol(res, c, 'the handshake depends on how the same lines are cut into reads (%s): %r vs %r'
                            % (name, f, flat), 'handshake-depends-on-read-boundaries')
        if v_model != 0:
            res.disagree(c, 'model session judged %d by the spec' % v_model, 0, what='spec_on_model')
        if v_impl != 0:
            viol(res, c, 'observed session fails safety clause %d (%s): on connect %r, per line %r'
                        % (v_impl, SIGNATURES.get(v_impl, '?'), init, per), SIGNATURES.get(v_impl, 'clause-%d' % v_impl))
    return [not any(t[0] in ('close', 'authd') for t in runs[0][2]) for runs in impl]


def server_inputs(tokens):
    ins = []
    for t in tokens:
        if t[0] == 'raw':
            ins.append([0, t[1]])
        elif t[0] == 'line':
            ins.append([1, t[1]])
        elif t[0] == 'close':
            ins.append([2])
    return ins


def failure_phase(log):
    """where an incomplete handshake went wrong, read off the exchange"""
    for i, e in enumerate(log):
        if e == ('rx', b'ERROR') and i > 0 and log[i - 1] == ('line', b'NEGOTIATE_UNIX_FD'):
            return ':after-server-refused-unix-fd'
        if e[0] == 'rx' and e[1].startswith(b'DATA ') and log[i + 1:i + 2] == [('line', b'ERROR')]:
            return ':cookie-challenge-answered-with-error'
    return ''


def evaluate_loop(env, cases, res):
    """Real client against the Coq reference server: the server is a function of everything the
    client has written so far, re-run through modelrun each round."""
    stats = res.extra.setdefault('closed_loop', {'runs': 0, 'completed': 0, 'cookie_unanswerable_runs': 0,
                                                 'cookie_unanswerable_completed': 0, 'cookie_unanswerable_gave_up': 0})
    st = []
    for c in cases:
        unix, user, seeds, cfg, bytewise = c[1:6]
        kr, kd, _ = loop_keyring(c)
        env.enter(user, kr, seeds, kd)
        try:
            p, t = env.connect(bool(unix))
        finally:
            env.leave()
        cut = Cutter()
        toks = cut.drain(t.events)
        cc = [nonce_of(s) for s in seeds]
        sha = []
        for n in cc:
            pre = SRV_CHALLENGE + b':' + n + b':' + SRV_COOKIE
            sha.append([pre, hexl(hashlib.sha1(pre).digest())])
        st.append({'p': p, 't': t, 'cut': cut, 'log': [tok_sexp(x) for x in toks], 'raw_log': list(toks),
                   'to_server': list(toks), 'fed': 0, 'sha': sha, 'nonces': cc, 'state': 0, 'dead': False,
                   'seeds_left': list(seeds)})
    for _round in range(12):
        lines = ['(7 1 %s %s %s)' % (common.dump(c[4]), common.dump(s['sha']), common.dump(server_inputs(s['to_server'])))
                 for c, s in zip(cases, st)]
        outs = common.run_model(lines)
        progress = False
        for c, s, o in zip(cases, st, outs):
            s['state'], slines = o
            new = slines[s['fed']:]
            s['fed'] = len(slines)
            for l in new:
                s['log'].append([4, l])
                s['raw_log'].append(('rx', l))
                if s['dead']:
                    continue
                progress = True
                data = l + b'\r\n'
                pieces = [data[i:i + 1] for i in range(len(data))] if c[5] else [data]
                kr, kd, _ = loop_keyring(c)
                env.enter(c[2], kr, s['seeds_left'], kd)
                try:
                    for piece in pieces:
                        s['p'].dataReceived(piece)
                except Exception:
                    if not any(e[0] == 'authd' for e in s['t'].events):
                        s['t'].loseConnection()
                    s['dead'] = True
                finally:
                    s['seeds_left'] = list(env.seeds)
                    env.leave()
                toks = s['cut'].drain(s['t'].events)
                if any(x[0] == 'authd' for x in toks):
                    s['dead'] = True
                s['to_server'].extend(toks)
                s['raw_log'].extend(toks)
                s['log'].extend(tok_sexp(x) for x in toks)
        if not progress:
            break
    mouts = common.run_model([('(7 4 %s)' if c[0] == 'loopnc' else '(7 2 %s)') % ' '.join(common.dump(x) for x in
                              [c[1], c[2], s['nonces'], s['sha'], c[4], loop_keyring(c)[2] if c[0] == 'loopnc' else 0])
                              for c, s in zip(cases, st)])
    for c, s, mo in zip(cases, st, mouts):
        nc = c[0] == 'loopnc'
        stats['cookie_unanswerable_runs' if nc else 'runs'] += 1
        res.count(c, nontrivial=True)
        authd = any(x[0] == 'authd' for x in s['raw_log'])
        closed = any(x[0] == 'close' for x in s['raw_log'])
        done = authd and not closed and s['state'] == 4
        gave_up = closed and not authd and s['state'] == 5
        if done:
            stats['cookie_unanswerable_completed' if nc else 'completed'] += 1
        if nc and gave_up:
            stats['cookie_unanswerable_gave_up'] += 1
        canon = [[e[0], canon_line(e[1])] if e[0] in (1, 4) else e for e in s['log']]
        mlog = [[e[0], canon_line(e[1])] if e[0] in (1, 4) else e for e in mo[1]]
        if canon != mlog or bool(mo[0]) != done or (nc and bool(mo[2]) != gave_up):
            res.disagree(c, {'completed': done, 'gave_up': gave_up, 'log': canon},
                         {'completed': bool(mo[0]), 'gave_up': bool(mo[2]) if nc else None, 'log': mlog})
        what = ('handshake with the reference server (accepts %r, fd answer %s, EXTERNAL %s) on a %s transport'
                % ([m.decode() for m in c[4][0]], 'AGREE_UNIX_FD' if c[4][1] else 'ERROR',
                   'challenges' if c[4][2] else 'accepts at once', 'UNIX' if c[1] else 'non-UNIX'))
        how = ('server state %d, client authenticated=%s closed=%s; exchange %r' % (s['state'], authd, closed, s['raw_log']))
        if not nc:
            if not done:
                viol(res, c, '%s does not complete: %s' % (what, how),
                     'handshake-with-conforming-server-incomplete' + failure_phase(s['raw_log']))
        elif [bytes(m) for m in c[4][0]] != [b'DBUS_COOKIE_SHA1']:
            # C07_completes_without_cookie: the server accepts EXTERNAL or ANONYMOUS
            if not done:
                viol(res, c, '%s, client keyring unable to answer the cookie challenge (%s), does not complete: %s'
                     % (what, c[6], how), 'handshake-with-conforming-server-incomplete:cookie-unanswerable')
        elif not gave_up:
            # C07_gives_up_without_cookie: nothing is left to offer - the client must close, not hang
            viol(res, c, '%s, client keyring unable to answer the cookie challenge (%s): the client neither '
                 'authenticates nor closes: %s' % (what, c[6], how), 'stall-cookie-only-server:cookie-unanswerable')


def run_impl_chunks(env, unix, chunks):
    """the real client fed exactly these reads -> flat tokens (nothing after authentication)"""
    p, t = env.connect(unix)
    cut = Cutter()
    flat = cut.drain(t.events)
    for ch in chunks:
        if t.disconnecting:
            break                                  # the transport delivers nothing after loseConnection
        try:
            p.dataReceived(ch)
        except Exception:
            if not any(e[0] == 'authd' for e in t.events):
                t.loseConnection()
            flat.extend(cut.drain(t.events))
            break
        flat.extend(cut.drain(t.events))
        if any(x[0] == 'authd' for x in flat):
            break
    for k, x in enumerate(flat):
        if x[0] == 'authd':
            return flat[:k + 1]
    return flat + cut.drain(t.events, final=True)


def cut_at(stream, points):
    pts = sorted(set(p for p in points if 0 < p < len(stream)))
    out, prev = [], 0
    for p in pts:
        out.append(stream[prev:p])
        prev = p
    out.append(stream[prev:])
    return out


def evaluate_cut(env, cases, res):
    """['cut', unix, user, seeds, stream, [cut points, ...]]: one byte stream under several cuttings into
    reads, INSIDE lines too; model = Model/Framing.v's dataReceived with the ClientAuthenticator model as
    authenticator (op 3), which Proofs/AuthClientFramingBridge.v proves equal to the line-level session"""
    stats = res.extra.setdefault('byte_level_cuttings', {'streams': 0, 'cuttings': 0})
    mlines, impl = [], []
    for c in cases:
        _, unix, user, seeds, stream, cuttings = c
        nonces = [nonce_of(x) for x in seeds]
        runs = []
        for pts in cuttings:
            chunks = cut_at(stream, pts)
            env.enter(user, KEYRING, seeds)
            try:
                runs.append(run_impl_chunks(env, bool(unix), chunks))
            finally:
                env.leave()
            mlines.append('(7 3 %s)' % ' '.join(common.dump(x) for x in
                                               [1 if unix else 0, user, KEYRING, nonces,
                                                sha_table(KEYRING, nonces, stream.split(b'\r\n')), chunks]))
        impl.append(runs)
    outs = common.run_model(mlines, jobs=min(16, max(1, len(mlines))))
    k = 0
    for c, runs in zip(cases, impl):
        stats['streams'] += 1
        res.count(c, nontrivial=True)
        first = None
        for pts, flat in zip(c[5], runs):
            stats['cuttings'] += 1
            o = outs[k]
            k += 1
            m_flat = [out_tok(x) for x in o[0]] if isinstance(o, list) and o and isinstance(o[0], list) else o
            if flat != m_flat:
                res.disagree(c, {'cut points': pts, 'flat': flat}, {'flat': m_flat})
            if first is None:
                first = (pts, flat)
            elif flat != first[1]:
                viol(res, c, 'the same byte stream cut at %r and at %r makes the client behave differently: %r vs %r'
                     % (first[0], pts, first[1], flat), 'handshake-depends-on-read-boundaries')


def evaluate(ctx, cases, res):
    cases = [list(c) for c in cases]
    env = Env()
    try:
        open_cases = [c for c in cases if c and c[0] not in ('loop', 'loopnc', 'cut')]
        loop_cases = [c for c in cases if c and c[0] in ('loop', 'loopnc')]
        cut_cases = [c for c in cases if c and c[0] == 'cut']
        if open_cases:
            evaluate_open(env, open_cases, res)
        if loop_cases:
            evaluate_loop(env, loop_cases, res)
        if cut_cases:
            evaluate_cut(env, cut_cases, res)
    finally:
        env.close()


# --------------------------------------------------------------------------
# generation
KEYRING = [[b'ctx1', [[b'73', b'bad0'], [b'7', b'c0ffee'], [b'9', b'abcd']]], [b'other', [[b'1', b'00']]]]   # id 73 before id 7: the lookup is by exact id, not by prefix
CH_GOOD = b'DATA ' + hexl(b'ctx1 7 deadbeef')
CH_NOID = b'DATA ' + hexl(b'ctx1 8 deadbeef')
CH_NOFILE = b'DATA ' + hexl(b'nofile 7 deadbeef')
CH_TWO = b'DATA ' + hexl(b'ctx1 7')

ALPHA_QUICK = [b'OK 1234deadbeef', b'OK zz', b'OK', b'REJECTED EXTERNAL DBUS_COOKIE_SHA1 ANONYMOUS',
               CH_GOOD, b'DATA zz', b'ERROR', b'AGREE_UNIX_FD', b'FOO bar', b'']
ALPHA_MORE = [b'DATA', b'REJECTED', b'ERROR no', CH_NOID, b'OK  12AB ', b'OK 12ab 34cd', b'OK 01 23 45', b'OK 0123\t4567']  # the last three: hex pairs with white space BETWEEN them are not a GUID
WORDS = [b'OK', b'REJECTED', b'DATA', b'ERROR', b'AGREE_UNIX_FD', b'BEGIN', b'AUTH', b'ok', b'OK\t', b'', b'CANCEL',
         b'NEGOTIATE_UNIX_FD', b'OKAY', b'DATA\xc3\xa9', b'\xff\xfe']


def random_line(rng):
    r = rng.random()
    if r < 0.55:
        return rng.choice(ALPHA_QUICK + ALPHA_MORE + [CH_NOFILE, CH_TWO])
    if r < 0.75:
        w = rng.choice(WORDS)
        k = rng.randrange(4)
        if k == 0:
            return w
        if k == 1:
            a = hexl(bytes(rng.randrange(256) for _ in range(rng.randrange(0, 6))))
            if rng.random() < 0.3:
                a = a.upper()
            pad = rng.choice([b'', b' ', b'\t', b'\n', b'  ', b'\r'])
            return w + b' ' + rng.choice([b'', b' ']) + a + pad
        if k == 2:
            toks = [rng.choice([b'ctx1', b'other', b'nofile', b'ct\xff']), rng.choice([b'7', b'9', b'1', b'x']),
                    rng.choice([b'deadbeef', b'00', b'z'])][:rng.randrange(1, 4)]
            sep = rng.choice([b' ', b'  ', b'\t', b'\n'])
            return w + b' ' + hexl(sep.join(toks))
        return w + b' ' + bytes(rng.choice(b'0123456789abcdefABCDEFxyz \t') for _ in range(rng.randrange(0, 9)))
    n = rng.randrange(0, 12)
    l = bytes(rng.choice(b'OKDATREJCSGUNIXFBY_ 0123abcdef\t\n\r\x00\xff\xc3\xa9') for _ in range(n))
    return l.replace(b'\r\n', b'\r ')


def long_line(rng):
    """well past MAX_AUTH_LENGTH (the exact boundary is C04's)"""
    return rng.choice([b'OK ', b'DATA ', b'X', b'REJECTED ']) + b'ab' * (8200 + rng.randrange(0, 40))


def exhaust(env, res, alpha, depth, seeds):
    """all sequences over alpha up to the given length; a session is not extended beyond the line after
    which the client has closed or authenticated, but every such end is followed by each line once"""
    total = 0
    for unix in (0, 1):
        frontier = [[]]
        for d in range(1, depth + 1):
            cases = [[unix, b'vuser', KEYRING, seeds, pre + [a]] for pre in frontier for a in alpha]
            live = []
            for i in range(0, len(cases), 20000):
                live.extend(evaluate_open(env, cases[i:i + 20000], res))
            total += len(cases)
            if d <= 2:
                for c in cases[:2]:
                    res.sample(c)
            if d < depth:
                frontier = [c[4] for c, lv in zip(cases, live) if lv]
                tail = [[unix, b'vuser', KEYRING, seeds, c[4] + [a]] for c, lv in zip(cases, live) if not lv
                        for a in alpha]
                for i in range(0, len(tail), 20000):
                    evaluate_open(env, tail[i:i + 20000], res)
                total += len(tail)
    return total


def run(ctx, res):
    rng = ctx.rng
    plans = [(ALPHA_QUICK, 5)] if ctx.quick else [(ALPHA_QUICK, 7), (ALPHA_QUICK + ALPHA_MORE, 4)]
    res.rule = ('open loop: ALL sequences of server lines of length <= %s over a %s-line alphabet (sessions are not '
                'extended beyond the line after which the client has closed or authenticated, every such end is '
                'followed by each line once), UNIX and non-UNIX transport, each under four cuttings into reads; '
                'random sequences up to length 14 over generated lines (random hex, white space, non-UTF-8), a few '
                'over-long lines; closed loop: real client against the Coq reference server for all 7 accepted sets '
                'x fd answer x EXTERNAL style x transport x whole/byte-wise reads, with the server\'s cookie in the keyring and '
                'with each of four keyrings that cannot answer the challenge.  Non-trivial: at least two server '
                'lines and the client sent two lines after its opening or authenticated'
                % (' / '.join(str(d) for _, d in plans), ' / '.join(str(len(a)) for a, _ in plans)))
    seeds = [bytes([i + 1]) * 8 for i in range(9)]
    total = 0
    env = Env()
    try:
        for alpha, depth in plans:
            total += exhaust(env, res, alpha, depth, seeds)
    finally:
        env.close()
    res.extra['exhaustive_open_loop_cases'] = total
    res.exhaustive = True

    # random sequences
    n = ctx.n(3000, 20000)
    cases = []
    users = [b'vuser', b'root', b'a', b'user.name-1']
    for _ in range(n):
        ln = rng.randrange(1, 15)
        kr = rng.choice([KEYRING, KEYRING, [], [[b'ctx1', []]], [[b'ctx1', [[b'7', b'zz'], [b'7', b'c0ffee']]]]])
        sd = [bytes(rng.randrange(256) for _ in range(8)) for _ in range(ln)]
        cases.append([rng.randrange(2), rng.choice(users), kr, sd, [random_line(rng) for _ in range(ln)]])
    # the keyring directory in a state in which the client must not / cannot use it, under sessions that reach
    # the cookie challenge (and a few that do not)
    kd_cases = []
    for kdir in (KDIR_OTHERS, KDIR_GROUP, KDIR_FOREIGN, KDIR_MISSING):
        for unix in (0, 1):
            for pre in ([], [b'REJECTED DBUS_COOKIE_SHA1 ANONYMOUS'], [b'REJECTED DBUS_COOKIE_SHA1'], [b'REJECTED EXTERNAL DBUS_COOKIE_SHA1 ANONYMOUS', b'REJECTED']):
                for ch in (CH_GOOD, CH_NOID, CH_NOFILE, CH_TWO):
                    for post in ([], [b'REJECTED ANONYMOUS', b'OK 1234deadbeef'], [b'ERROR', b'REJECTED'], [b'OK 1234deadbeef']):
                        kd_cases.append([unix, b'vuser', KEYRING, seeds[:4], pre + [ch] + post, kdir])
    for _ in range(ctx.n(300, 3000)):
        ln = rng.randrange(1, 10)
        sd = [bytes(rng.randrange(256) for _ in range(8)) for _ in range(ln)]
        kd_cases.append([rng.randrange(2), rng.choice(users), KEYRING, sd, [random_line(rng) for _ in range(ln)],
                         rng.choice((KDIR_OTHERS, KDIR_GROUP, KDIR_FOREIGN, KDIR_MISSING))])
    cases.extend(kd_cases)
    res.extra['keyring_directory_unusable_cases'] = len(kd_cases)
    for i in range(0, len(cases), 2000):
        evaluate(ctx, cases[i:i + 2000], res)
    res.sample(cases[0])
    res.extra['random_open_loop_cases'] = len(cases)

    # over-long lines (slow in the model runner: a handful)
    cases = []
    for _ in range(ctx.n(8, 32)):
        pre = [rng.choice(ALPHA_QUICK + ALPHA_MORE) for _ in range(rng.randrange(0, 3))]
        post = [rng.choice(ALPHA_QUICK) for _ in range(rng.randrange(0, 2))]
        cases.append([rng.randrange(2), b'vuser', KEYRING, [b'\x05' * 8] * 4, pre + [long_line(rng)] + post])
    evaluate(ctx, cases, res)
    res.extra['over_long_line_cases'] = len(cases)

    # byte-level cuttings inside lines, at the line-length limit and inside the delimiter
    lim = 16384
    cuts = []
    lengths = (lim, lim + 1) if ctx.quick else (lim - 1, lim, lim + 1, lim + 2)
    for L in lengths:
        for unix in ((1,) if ctx.quick else (0, 1)):
            line = b'DATA ' + b'a' * (L - 5)
            stream = line + b'\r\nOK 1234deadbeef\r\nAGREE_UNIX_FD\r\nl' + b'\0' * 7
            half = [8192]              # keep reads small for the model runner's parser
            cuttings = [half, half + [L], half + [L + 1], half + [L, L + 1], half + [lim], half + [lim + 1],
                        half + [lim - 1, lim, lim + 1, lim + 2, lim + 3], half + [L + 2 + 4, L + 2 + 17]]
            if not ctx.quick:
                cuttings.append(half + list(range(lim - 3, len(stream))))
            cuts.append(['cut', unix, b'vuser', [b'\x07' * 8] * 2, stream, cuttings])
    for T in ((lim + 1, lim + 2) if ctx.quick else (lim, lim + 1, lim + 2, lim + 3)):
        # an unterminated remainder: acceptable while it can still become a line of the maximum length
        stream = b'DATA\r\n' + b'OK ' + b'ab' * ((T - 3) // 2) + (b'c' if (T - 3) % 2 else b'')
        cuts.append(['cut', 0, b'vuser', [b'\x07' * 8] * 2, stream,
                     [[8192], [6, 8192], [8192, len(stream) - 2, len(stream) - 1], [8192, lim, lim + 1, lim + 2]]])
    evaluate(ctx, cuts, res)
    res.sample(['cut', cuts[0][1], cuts[0][2], cuts[0][3], cuts[0][4][:40] + b'...', cuts[0][5][:3]])

    # closed loop against the reference server
    sets = [[b'EXTERNAL'], [b'DBUS_COOKIE_SHA1'], [b'ANONYMOUS'], [b'EXTERNAL', b'DBUS_COOKIE_SHA1'],
            [b'EXTERNAL', b'ANONYMOUS'], [b'DBUS_COOKIE_SHA1', b'ANONYMOUS'],
            [b'EXTERNAL', b'DBUS_COOKIE_SHA1', b'ANONYMOUS']]
    loops = []
    for acc, fd, ext, unix, bw in itertools.product(sets, (1, 0), (1, 0), (0, 1), (0, 1)):
        sd = [bytes(rng.randrange(256) for _ in range(8)) for _ in range(3)]
        loops.append(['loop', unix, rng.choice(users), sd, [acc, fd, ext], bw])
        # the same handshake with each keyring that cannot answer the server's cookie challenge
        for kind in ('noid', 'missing', 'others', 'group'):
            loops.append(['loopnc', unix, rng.choice(users), sd, [acc, fd, ext], bw, kind])
    evaluate(ctx, loops, res)
    res.sample(loops[5])
