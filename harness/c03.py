"""C03: message constructors and parseMessage vs Model/Message.v; oracles from the property text.

case kinds
  build   : construct a message of one of the 4 classes (random subset of optional fields, flags, typed body),
            compare raw bytes with the model, parse them back (implementation and model) and check that
            type, serial, flags, every field, signature and body are recovered; well-formedness of the bytes
  foreign : the specification encoding of a message (Spec/WireSpec.v enc_seq for header and body, either byte
            order, fields in random order, unknown field codes) parsed by implementation and model
  invalid : a constructor call with one invalid coordinate (path / interface / member / destination / error name)
            must raise
"""
import random
import struct

from harness import common
from harness import marshal_common as mc
from harness import c01

ASSUMPTIONS = c01.ASSUMPTIONS + [
    'the 128 MiB limit is exercised against the implementation only in the thorough tier (one case); the model side of it is the theorem',
]

HDR_TS = ['y', 'y', 'y', 'y', 'u', 'u', ['a', ['(', ['y', 'v']]]]
FIELD_TY = {1: 'o', 2: 's', 3: 's', 4: 's', 5: 'u', 6: 's', 7: 's', 8: 'g', 9: 'u'}
ATTR = {1: 'path', 2: 'interface', 3: 'member', 4: 'error_name', 5: 'reply_serial', 6: 'destination', 7: 'sender',
        8: 'signature', 9: 'unix_fds'}
NAMES = {
    'path': ['/', '/a', '/org/freedesktop/DBus', '/a/b_c/D1'],
    'interface': ['a.b', 'org.freedesktop.DBus', 'A_1.b2.C'],
    'member': ['M', 'Hello', 'get_X1'],
    'error_name': ['a.Err', 'org.freedesktop.DBus.Error.Failed'],
    'destination': [':1.5', 'org.x', 'a.b-c', ':1.2.3'],
    'sender': [':1.7', 'org.y'],
}
BAD = {
    'path': ['', 'a', '/a/', '//', '/a//b', '/a-b', '/é'],
    'interface': ['', 'a', 'a.', '.a', 'a..b', '1a.b', 'a.2b', 'a.b!', 'a' * 250 + '.bcdefg'],
    'member': ['', '1a', 'a.b', 'a-b', 'm' * 256],
    'error_name': ['', 'a', 'a.', 'a..b', '1.a'],
    'destination': ['', 'a', 'a.', ':1.', ':.a', 'a:b.c', '1a.b', 'a..b', 'a.b!'],
}


def gen_body(rng, depth=2):
    if rng.random() < 0.25:
        return None
    nt = rng.choice([1, 1, 2, 3])
    ts = [mc.gen_type(rng, rng.choice([0, 1, depth]), allow_fd=False) for _ in range(nt)]
    ws = [mc.gen_w(rng, t, depth, mc.FdCounter()) for t in ts]
    return {'ts': ts, 'ws': ws}


def gen_cases(ctx):
    rng = ctx.rng
    for _ in range(ctx.n(1500, 30000)):
        mt = rng.choice([1, 2, 3, 4])
        c = {'kind': 'build', 'mt': mt, 'er': rng.random() < 0.6, 'au': rng.random() < 0.6,
             'fields': {}, 'body': gen_body(rng), 'shape': rng.randrange(1 << 30), 'sigmode': rng.choice([0, 0, 0, 1, 2])}
        req = {1: ['path', 'member'], 2: ['reply_serial'], 3: ['error_name', 'reply_serial'], 4: ['path', 'member', 'interface']}[mt]
        opt = {1: ['interface', 'destination'], 2: ['destination'], 3: ['destination', 'sender'], 4: ['destination']}[mt]
        for a in req:
            c['fields'][a] = rng.choice(NAMES[a]) if a != 'reply_serial' else rng.choice([1, 2, 77, 2**32 - 1])
        for a in opt:
            if rng.random() < 0.5:
                c['fields'][a] = rng.choice(NAMES[a])
        yield c
    for _ in range(ctx.n(1500, 20000)):
        mt = rng.choice([1, 2, 3, 4])
        fields = []
        codes = {1: [1, 3], 2: [5], 3: [4, 5], 4: [1, 2, 3]}[mt] + [c for c in (2, 6, 7) if rng.random() < 0.5]
        body = gen_body(rng)
        if rng.random() < 0.3:
            codes += [rng.choice([0, 10, 42, 200])]
        if rng.random() < 0.1:
            codes += [rng.choice(codes)]          # a repeated field: the later one wins
        rng.shuffle(codes)
        for code in codes:
            if code in FIELD_TY and code not in (8, 9):
                a = ATTR[code]
                v = rng.choice(NAMES[a]) if a != 'reply_serial' else rng.choice([1, 9, 2**32 - 1])
                fields.append([code, FIELD_TY[code], v])
            else:
                fields.append([code, rng.choice(['s', 'u', 'ay']), None])
        yield {'kind': 'foreign', 'mt': mt, 'flags': rng.choice([0, 0, 1, 2, 3]), 'serial': rng.choice([1, 5, 2**32 - 1]),
               'fields': fields, 'body': body, 'le': rng.random() < 0.5, 'sigpos': rng.randrange(100)}
    for mt, attr, arg in [(1, 'path', 'path'), (1, 'member', 'member'), (1, 'interface', 'interface'), (1, 'destination', 'destination'),
                          (2, 'destination', 'destination'), (3, 'error_name', 'error_name'), (3, 'destination', 'destination'),
                          (4, 'path', 'path'), (4, 'member', 'member'), (4, 'interface', 'interface'), (4, 'destination', 'destination')]:
        for bad in BAD[attr]:
            yield {'kind': 'invalid', 'mt': mt, 'attr': attr, 'value': bad}
    if not ctx.quick:
        yield {'kind': 'toolong'}


def build_impl(message, c, vals, sig):
    f = c['fields']
    mt = c['mt']
    if mt == 1:
        return message.MethodCallMessage(f.get('path'), f.get('member'), interface=f.get('interface'),
                                         destination=f.get('destination'), signature=sig, body=vals,
                                         expectReply=c['er'], autoStart=c['au'])
    if mt == 2:
        return message.MethodReturnMessage(f.get('reply_serial'), body=vals, destination=f.get('destination'), signature=sig)
    if mt == 3:
        return message.ErrorMessage(f.get('error_name'), f.get('reply_serial'), destination=f.get('destination'),
                                    signature=sig, body=vals, sender=f.get('sender'))
    return message.SignalMessage(f.get('path'), f.get('member'), f.get('interface'), destination=f.get('destination'),
                                 signature=sig, body=vals)


CODE = {v: k for k, v in ATTR.items()}


def model_attrs(c, sig):
    out = []
    for a, v in c['fields'].items():
        if a == 'reply_serial':
            out.append([CODE[a], [9, 117, [0, v]]])
        else:
            out.append([CODE[a], [3, v.encode('utf-8')]] if v is not None else [CODE[a], [10]])
    if sig is not None:
        out.append([8, [3, sig.encode('utf-8')]])
    return out


def obs_parsed(m):
    """canonical observation of a parsed message object"""
    attrs = {}
    for code, a in ATTR.items():
        v = m.__dict__.get(a, None)
        if v is not None or a in m.__dict__:
            attrs[code] = mc.pv_form(v)
    body = m.__dict__.get('body', None)
    return [m._messageType, m.serial, 1 if m.expectReply else 0, 1 if m.autoStart else 0,
            attrs, None if body is None else [mc.pv_form(x) for x in body]]


def model_parsed(o):
    if o[0] != 1:
        return ('err', o[1])
    attrs = {}
    for code, v in o[5]:
        attrs[code] = v          # later entries win
    body = o[6][0] if o[6] else None
    return ('ok', [o[1], o[2], o[3], o[4], attrs, body])


def evaluate(ctx, cases, res):
    from txdbus import message, marshal, error
    cases = list(cases)
    prep = {}
    lines = []
    stats = {'build': 0, 'foreign': 0, 'invalid': 0}
    # ---- stage 1: implementation + model lines ---------------------------------------------
    for i, c in enumerate(cases):
        k = c['kind']
        if k == 'build':
            srng = random.Random(c['shape'])
            sig, vals = None, None
            if c['body'] is not None:
                shapes = mc.Shapes(srng, marshal)
                vals = [shapes.py(t, w) for t, w in zip(c['body']['ts'], c['body']['ws'])]
                if any(mc.has_none(v) for v in vals):
                    prep[i] = None
                    lines.append('(0)')
                    continue
                sig = ''.join(mc.show(t) for t in c['body']['ts'])
            elif c['sigmode'] == 1:
                sig = ''            # empty signature string, no body
            serial0 = message.DBusMessage._nextSerial
            try:
                m = build_impl(message, c, vals, sig)
                im = ('ok', m.rawHeader, m.rawPadding, m.rawBody, m.serial, m)
            except Exception as e:
                im = ('err', type(e).__name__)
            prep[i] = (sig, vals, serial0, im)
            body_form = [5, [mc.pv_form(v) for v in vals]] if vals is not None else [10]
            lines.append('(3 1 0 %d %d %d %s %s %d %s)' % (
                c['mt'], c['er'] if c['mt'] == 1 else 1, c['au'] if c['mt'] == 1 else 1,
                common.dump(model_attrs(c, sig)), common.dump(body_form), serial0,
                '(())' if c['mt'] == 1 else '()'))
        elif k == 'foreign':
            fields_t, fields_w = [], []
            body = c['body']
            fl = list(c['fields'])
            if body is not None:
                sig = ''.join(mc.show(t) for t in body['ts'])
                fl.insert(c['sigpos'] % (len(fl) + 1), [8, 'g', sig])
            ws_fields = []
            for code, t, v in fl:
                if v is None:
                    v = {'s': 'zz', 'u': 7, 'ay': [1, 2]}[t]
                    t = t if t != 'ay' else ['a', 'y']
                ws_fields.append([code, {'vt': t, 'w': v}])
            hdr_ws_proto = [108 if c['le'] else 66, c['mt'], c['flags'], 1, 0, c['serial'], ws_fields]
            prep[i] = (fl, ws_fields, hdr_ws_proto)
            tss = [mc.t_sexp(t) for t in (body['ts'] if body else [])]
            wss = [mc.w_sexp(t, w) for t, w in zip(body['ts'], body['ws'])] if body else []
            lines.append('(2 1 %s %s 0 %d)' % (common.dump(tss), common.dump(wss), c['le']))
        elif k == 'invalid':
            lines.append('(18 %s)' % common.dump(c['value']))
        else:
            lines.append('(0)')
    out1 = common.run_model(lines)
    # ---- stage 2: parse own bytes / assemble foreign messages ---------------------------------
    lines2 = []
    stage2 = {}
    for i, c in enumerate(cases):
        k = c['kind']
        if k == 'build' and prep[i] is not None:
            sig, vals, serial0, im = prep[i]
            if im[0] == 'ok':
                raw = im[1] + im[2] + im[3]
                try:
                    pm = ('ok', obs_parsed(message.parseMessage(raw, [])))
                except Exception as e:
                    pm = ('err', type(e).__name__)
                stage2[i] = (raw, pm)
                lines2.append('(3 2 0 %s (()))' % common.dump(raw))
                lines2.append('(0)')
            else:
                lines2 += ['(0)', '(0)']
        elif k == 'foreign':
            fl, ws_fields, hw = prep[i]
            body_bytes = out1[i] if isinstance(out1[i], bytes) else b''
            hw = list(hw)
            hw[4] = len(body_bytes)
            hdr_line = '(2 1 %s %s 0 %d)' % (common.dump([mc.t_sexp(t) for t in HDR_TS]),
                                             common.dump([mc.w_sexp(t, w) for t, w in zip(HDR_TS, hw)]), c['le'])
            stage2[i] = (body_bytes,)
            lines2.append(hdr_line)
            lines2.append('(0)')
        else:
            lines2 += ['(0)', '(0)']
    out2 = common.run_model(lines2)
    lines3 = []
    stage3 = {}
    for i, c in enumerate(cases):
        if c['kind'] == 'foreign':
            hdr = out2[2 * i]
            body_bytes = stage2[i][0]
            raw = hdr + b'\0' * ((8 - len(hdr) % 8) % 8) + body_bytes
            try:
                pm = ('ok', obs_parsed(message.parseMessage(raw, [])))
            except Exception as e:
                pm = ('err', type(e).__name__)
            stage3[i] = (raw, pm)
            lines3.append('(3 2 0 %s (()))' % common.dump(raw))
            lines3.append('(3 3 %d %s)' % (c['le'], common.dump(raw)))
        elif c['kind'] == 'build' and i in stage2:
            lines3.append('(3 3 1 %s)' % common.dump(stage2[i][0]))
            lines3.append('(0)')
        else:
            lines3 += ['(0)', '(0)']
    out3 = common.run_model(lines3)
    # ---- compare -------------------------------------------------------------------------------
    seen_serials = set()
    for i, c in enumerate(cases):
        k = c['kind']
        if k == 'build':
            if prep[i] is None:
                continue
            stats['build'] += 1
            sig, vals, serial0, im = prep[i]
            res.count(c, nontrivial=True)
            mo = out1[i]
            mm = ('ok', mo[1], mo[2], mo[3]) if mo[0] == 1 else ('err', mo[1])
            if im[0] != mm[0] or (im[0] == 'ok' and im[1:4] != mm[1:4]):
                res.disagree(c, im[:4], mm, 'model_construct')
            if im[0] != 'ok':
                res.violate(c, 'a valid message could not be constructed: %s' % (im,), 'construct-fails')
                continue
            raw, pm = stage2[i]
            mp = model_parsed(out2[2 * i])
            if pm[0] != mp[0] or (pm[0] == 'ok' and pm[1] != mp[1]):
                res.disagree(c, pm, mp, 'model_parse_own')
            # well-formedness (property text)
            hdr, pad, body, serial = im[1], im[2], im[3], im[4]
            why = None
            if len(hdr) < 16 or hdr[0:1] != b'l' or hdr[3] != 1:
                why = 'bad fixed header'
            elif struct.unpack('<I', hdr[4:8])[0] != len(body):
                why = 'declared body length %d != body length %d' % (struct.unpack('<I', hdr[4:8])[0], len(body))
            elif pad != b'\0' * ((8 - len(hdr) % 8) % 8):
                why = 'header padding is not zero bytes to an 8-byte boundary'
            elif struct.unpack('<I', hdr[12:16])[0] + 16 != len(hdr):
                why = 'header array length does not match the header'
            elif serial == 0 or serial in seen_serials or struct.unpack('<I', hdr[8:12])[0] != serial:
                why = 'serial %r is zero, reused, or not the one in the header' % (serial,)
            elif out3[2 * i] != len(raw):
                why = 'frame length computed from the first 16 bytes (%r) != message length %d' % (out3[2 * i], len(raw))
            seen_serials.add(serial)
            if why:
                res.violate(c, why, 'malformed-own-message')
            # parse back recovers everything
            if pm[0] != 'ok':
                res.violate(c, 'own message failed to parse: %s' % (pm,), 'parse-own-fails')
            else:
                want_attrs = {}
                for a, v in c['fields'].items():
                    want_attrs[CODE[a]] = [0, v] if a == 'reply_serial' else [3, v.encode('utf-8')]
                if sig is not None:
                    want_attrs[8] = [3, sig.encode('utf-8')]
                want_body = None
                if c['body'] is not None:
                    want_body = [mc.expected(t, w) for t, w in zip(c['body']['ts'], c['body']['ws'])]
                er = c['er'] if c['mt'] == 1 else True
                au = c['au'] if c['mt'] == 1 else True
                want = [c['mt'], serial, 1 if er else 0, 1 if au else 0, want_attrs, want_body]
                if pm[1] != want:
                    res.violate(c, 'parsing the produced bytes gave %r, constructed %r' % (pm[1], want), 'parse-own-differs')
            res.sample({'kind': 'build', 'mt': c['mt'], 'raw': raw.hex()}, limit=3)
        elif k == 'foreign':
            stats['foreign'] += 1
            res.count(c, nontrivial=True)
            raw, pm = stage3[i]
            mp = model_parsed(out3[2 * i])
            if pm[0] != mp[0] or (pm[0] == 'ok' and pm[1] != mp[1]):
                res.disagree(c, pm, mp, 'model_parse_foreign')
            fl, ws_fields, hw = prep[i]
            want_attrs = {}
            for code, t, v in fl:
                if code in ATTR and v is not None:
                    want_attrs[code] = mc.expected(t, v)
                elif code in ATTR:
                    vt = ws_fields[[x[0] for x in ws_fields].index(code)][1]
                    want_attrs[code] = mc.expected(vt['vt'], vt['w'])
            # later duplicates win
            for code, vt in ws_fields:
                if code in ATTR:
                    want_attrs[code] = mc.expected(vt['vt'], vt['w'])
            body = c['body']
            want_body = [mc.expected(t, w) for t, w in zip(body['ts'], body['ws'])] if body else None
            want = [c['mt'], c['serial'], 0 if c['flags'] & 1 else 1, 0 if c['flags'] & 2 else 1, want_attrs, want_body]
            if pm[0] != 'ok':
                res.violate(c, 'spec-conformant foreign message failed to parse: %s' % (pm,), 'parse-foreign-fails')
            elif pm[1] != want:
                res.violate(c, 'foreign message parsed to %r, it encodes %r' % (pm[1], want), 'parse-foreign-differs')
            if out3[2 * i + 1] != len(raw):
                res.violate(c, 'frame length from the first 16 bytes (%r) != message length %d' % (out3[2 * i + 1], len(raw)), 'frame-length')
            res.sample({'kind': 'foreign', 'le': c['le'], 'raw': raw.hex()}, limit=5)
        elif k == 'invalid':
            stats['invalid'] += 1
            res.count(c, nontrivial=True)
            kind_idx = {'path': 0, 'interface': 1, 'error_name': 2, 'destination': 3, 'member': 4}[c['attr']]
            grammar_ok = out1[i][kind_idx][2]
            f = {'path': '/a', 'member': 'M', 'interface': 'a.b', 'error_name': 'a.E', 'reply_serial': 1}
            f[c['attr']] = c['value']
            cc = {'mt': c['mt'], 'fields': {}, 'er': True, 'au': True}
            need = {1: ['path', 'member'], 2: ['reply_serial'], 3: ['error_name', 'reply_serial'], 4: ['path', 'member', 'interface']}[c['mt']]
            for a in need + [c['attr']]:
                cc['fields'][a] = f[a]
            try:
                build_impl(message, cc, None, None)
                built = True
            except Exception:
                built = False
            if built and not grammar_ok:
                res.violate(c, 'message constructed carrying %s=%r, which the DBus grammar rejects' % (c['attr'], c['value']),
                            'carries-invalid-%s' % c['attr'])
        elif k == 'toolong':
            res.count(c, nontrivial=True)
            try:
                message.MethodReturnMessage(1, body=['x' * (2**27)], signature='s')
                res.violate(c, 'a message of more than 2^27 bytes was constructed', 'too-long-constructed')
            except error.MarshallingError:
                pass
    res.extra['kinds'] = stats


def run(ctx, res):
    res.rule = ('4 message classes x random subsets of optional fields x flags x typed bodies from the C01 generator (build); '
                'specification-encoded messages in either byte order with shuffled, unknown and repeated header fields (foreign); '
                'constructor calls with one grammar-invalid coordinate (invalid); non-trivial: all; distinct by hash')
    evaluate(ctx, gen_cases(ctx), res)
