"""C03: message constructors and parseMessage vs Model/Message.v (correspondence) and vs
Spec/MsgSpec.v (oracle).

case kinds
  build   : construct a message of one of the 4 classes (subset of optional fields, flags, typed body in random
            Python shapes).  Correspondence: rawHeader / rawPadding / rawBody and the serial counter against the
            model; parseMessage on the produced bytes against the model.  Oracle: the bytes are the specification
            encoding msg_enc of the message (little-endian, fields in code order, serial = counter); the layout
            named in the property text (fixed part, body length, 8-byte padding of zeros, array length); serial
            non-zero, never seen before in this process, equal to the one in the header; the frame length computed
            from the first 16 bytes; parsing recovers type, serial, flags, every field, signature, read-back body.
  foreign : the specification encoding of a wire message in either byte order, fields shuffled, unknown field
            codes, now and then a repeated field; parsed by the implementation and the model; oracle = what the
            specification says a receiver recovers (Spec/MsgSpec.v recovered_fields / recovered_body).
  invalid : a constructor call with one grammar-invalid name (path / interface / member / destination / error
            name); oracle: the grammar (Spec/Grammar.v) rejects the name => the constructor must raise.
  badbody : a body that does not conform to its signature; correspondence of success/failure and of the counter.
  toolong : a message of more than 2^27 bytes must be refused (implementation only; the model side is the theorem).
  hostile : a specification-encoded message whose header is hostile to the CURRENT parseMessage: SIGNATURE field
            of type s / o / as / u or longer than 255 characters, UNIX_FDS field of a non-integer type, negative,
            huge, with non-empty descriptor lists (and None), UNIX_FD arguments in the body, every flags byte,
            message types outside 1..4, both byte orders.  Correspondence with Model/MessageCur.v only.

Every parseMessage comparison is also made against MessageCur.parse_message_cur (type, serial, flags, fields, body,
_otherFlags, rawBody); every constructor call against MessageCur.construct_cur_st; and every message that parsed is
re-marshalled the way the bus does it (sender := ':1.42', endian := byte 0, _marshal(False, rawBody=m.rawBody))
against MessageCur.remarshal_cur, with the oracle that the result parses to the same message with the new sender.
"""
import random
import struct

from harness import common
from harness import marshal_common as mc
from harness import c01

ASSUMPTIONS = c01.ASSUMPTIONS + [
    'the 128 MiB limit is exercised against the implementation only (one case per run); the model side of it is the theorem C03_unconstructible',
    'DBusMessage._nextSerial is read before and after every constructor call; the model is given the value before the call',
    'after a failed constructor call only "the counter did not go backwards" is compared (what the freshness theorem needs), after a successful one the exact value',
    'parseMessage is called with an empty descriptor list except in the hostile stream (None and lists of up to 5 integer descriptors); descriptor passing itself is C20',
    'marshal.ObjectPath / Signature / UInt32 applied by _marshal to a value of another type (str() / int() conversion) is outside the model (EUnmodelled): such re-marshal cases are counted, not compared',
    'the re-marshal oracle (forwarded bytes parse to the same message with the new sender, restricted to the header fields of the class table) is applied to constructed and conformant foreign messages only',
]

HDR_TS = ['y', 'y', 'y', 'y', 'u', 'u', ['a', ['(', ['y', 'v']]]]
FIELD_TY = {1: 'o', 2: 's', 3: 's', 4: 's', 5: 'u', 6: 's', 7: 's', 8: 'g', 9: 'u'}
ATTR = {1: 'path', 2: 'interface', 3: 'member', 4: 'error_name', 5: 'reply_serial', 6: 'destination', 7: 'sender',
        8: 'signature', 9: 'unix_fds'}
CODE = {v: k for k, v in ATTR.items()}
NAMES = {
    'path': ['/', '/a', '/org/freedesktop/DBus', '/a/b_c/D1'],
    'interface': ['a.b', 'org.freedesktop.DBus', 'A_1.b2.C'],
    'member': ['M', 'Hello', 'get_X1'],
    'error_name': ['a.Err', 'org.freedesktop.DBus.Error.Failed'],
    'destination': [':1.5', 'org.x', 'a.b-c', ':1.2.3'],
    'sender': [':1.7', 'org.y'],
}
BAD = {
    'path': ['', 'a', '/a/', '//', '/a//b', '/a-b', '/é', '/a\n', '//a'],
    'interface': ['', 'a', 'a.', '.a', 'a..b', '1a.b', 'a.2b', 'a.b!', 'a' * 250 + '.bcdefg', 'a.b\n', 'org.example.Iface\n', 'a.b.2c'],
    'member': ['', '1a', 'a.b', 'a-b', 'm' * 256, 'M\n'],
    'error_name': ['', 'a', 'a.', 'a..b', '1.a', 'a.Err\n', 'a.b.3c'],
    'destination': ['', 'a', 'a.', ':1.', ':.a', 'a:b.c', '1a.b', 'a..b', 'a.b!', 'a.b\n', ':1.5\n', ':', ':1', ':1..5'],
}
REQ = {1: ['path', 'member'], 2: ['reply_serial'], 3: ['error_name', 'reply_serial'], 4: ['path', 'member', 'interface']}
OPT = {1: ['interface', 'destination'], 2: ['destination'], 3: ['destination', 'sender'], 4: ['destination']}
# bodies that do not conform to their signature, in shapes the model represents: (signature, values)
BAD_BODIES = [('i', ['x']), ('y', [256]), ('y', [-1]), ('u', [2**32]), ('n', [40000]), ('s', ['a\0b']), ('o', ['nopath']),
              ('o', ['/a/']), ('s', [5]), ('ai', [[1, 'x']]), ('(ii)', [[1]]), ('(ii)', [5]), ('a', [[1]]), ('(i', [[1]]),
              ('z', [1]), ('ay', [[1, 300]]), ('a{sv}', [{'k': None}]), ('v', [None]), ('g', ['é']), ('b', [[]]),
              ('ii', [1]), ('i', [1, 2]), ('i', [])]


def gen_body(rng, depth=2):
    if rng.random() < 0.25:
        return None
    nt = rng.choice([1, 1, 2, 3])
    ts = [mc.gen_type(rng, rng.choice([0, 1, depth]), allow_fd=False) for _ in range(nt)]
    ws = [mc.gen_w(rng, t, depth, mc.FdCounter()) for t in ts]
    return {'ts': ts, 'ws': ws}


def exhaustive_builds():
    """4 types x every subset of the optional fields x both flags x {no signature, empty signature, a body}"""
    body = {'ts': ['s', ['a', 'i']], 'ws': ['hi', [1, -2]]}
    for mt in (1, 2, 3, 4):
        opt = OPT[mt]
        for mask in range(1 << len(opt)):
            for er in ((True, False) if mt == 1 else (True,)):
                for au in ((True, False) if mt == 1 else (True,)):
                    for sigmode in (0, 1, 2):
                        c = {'kind': 'build', 'mt': mt, 'er': er, 'au': au, 'fields': {}, 'shape': 7,
                             'body': body if sigmode == 2 else None, 'sigmode': sigmode}
                        for a in REQ[mt]:
                            c['fields'][a] = NAMES[a][1 % len(NAMES[a])] if a != 'reply_serial' else 77
                        for i, a in enumerate(opt):
                            if mask >> i & 1:
                                c['fields'][a] = NAMES[a][0]
                        yield c


def gen_cases(ctx):
    rng = ctx.rng
    for c in exhaustive_builds():
        yield c
    # every body signature of at most 2 (thorough: 3) characters, as a constructed and as a foreign message
    for j, ts in enumerate(c01.small_types(ctx.n(2, 3))):
        body = {'ts': ts, 'ws': [c01.canonical_w(rng, t) for t in ts]}
        mt = 1 + j % 4
        fields = {a: (NAMES[a][0] if a != 'reply_serial' else 3) for a in REQ[mt]}
        yield {'kind': 'build', 'mt': mt, 'er': True, 'au': j % 3 != 0 or mt != 1, 'fields': fields, 'body': body,
               'shape': rng.randrange(1 << 30), 'sigmode': 2}
        yield {'kind': 'foreign', 'mt': mt, 'flags': j % 4, 'serial': 1 + j,
               'fields': [[CODE[a], FIELD_TY[CODE[a]], v] for a, v in fields.items()], 'body': body, 'le': j % 2 == 0,
               'sigpos': j, 'sigmode': 0}
    deep = [2] if ctx.quick else [2, 2, 3, 4]
    for _ in range(ctx.n(1500, 60000)):
        mt = rng.choice([1, 2, 3, 4])
        c = {'kind': 'build', 'mt': mt, 'er': rng.random() < 0.6, 'au': rng.random() < 0.6,
             'fields': {}, 'body': gen_body(rng, rng.choice(deep)), 'shape': rng.randrange(1 << 30), 'sigmode': rng.choice([0, 0, 0, 1, 2])}
        if mt != 1:
            c['er'] = c['au'] = True          # only MethodCallMessage takes the flags
        for a in REQ[mt]:
            c['fields'][a] = rng.choice(NAMES[a]) if a != 'reply_serial' else rng.choice([0, 1, 2, 77, 2**32 - 1])
        for a in OPT[mt]:
            if rng.random() < 0.5:
                c['fields'][a] = rng.choice(NAMES[a])
        yield c
    for _ in range(ctx.n(1500, 40000)):
        mt = rng.choice([1, 2, 3, 4])
        fields = []
        codes = {1: [1, 3], 2: [5], 3: [4, 5], 4: [1, 2, 3]}[mt] + [c for c in (2, 6, 7) if rng.random() < 0.5]
        codes = sorted(set(codes))
        body = gen_body(rng, rng.choice(deep))
        if rng.random() < 0.3:
            codes += [rng.choice([0, 10, 42, 200, 255])]
        if rng.random() < 0.1:
            codes += [rng.choice(codes)]          # a repeated field: the later one wins
        rng.shuffle(codes)
        for code in codes:
            if code in FIELD_TY and code not in (8, 9):
                a = ATTR[code]
                v = rng.choice(NAMES[a]) if a != 'reply_serial' else rng.choice([0, 1, 9, 2**32 - 1])
                fields.append([code, FIELD_TY[code], v])
            else:
                t = rng.choice(['s', 'u', 'ay'])
                fields.append([code, t if t != 'ay' else ['a', 'y'], {'s': 'zz', 'u': 7, 'ay': [1, 2]}[t]])
        sigmode = 0
        if body is None and rng.random() < 0.2:
            sigmode = 1                           # an empty SIGNATURE field, no body
        yield {'kind': 'foreign', 'mt': mt, 'flags': rng.choice([0, 0, 1, 2, 3, 4, 7, 255]),
               'serial': rng.choice([1, 5, 2**31, 2**32 - 1]),
               'fields': fields, 'body': body, 'le': rng.random() < 0.5, 'sigpos': rng.randrange(100), 'sigmode': sigmode}
    for mt, attr in [(1, 'path'), (1, 'member'), (1, 'interface'), (1, 'destination'),
                     (2, 'destination'), (3, 'error_name'), (3, 'destination'),
                     (4, 'path'), (4, 'member'), (4, 'interface'), (4, 'destination')]:
        for bad in BAD[attr] + NAMES[attr if attr != 'error_name' else 'error_name'][:1]:
            yield {'kind': 'invalid', 'mt': mt, 'attr': attr, 'value': bad}
    for i, (sig, vals) in enumerate(BAD_BODIES):
        yield {'kind': 'badbody', 'mt': 1 + i % 4, 'sig': sig, 'vals': vals}
    for c in gen_hostile(ctx):
        yield c
    yield {'kind': 'toolong'}
    for mt in (1, 2, 3, 4):
        for counts in ([1, 1], [2, 0, 1], [0, 3, 3, 1], [1, 2, 1, 0, 2]):
            yield {'kind': 'fdseq', 'mt': mt, 'counts': counts}


SIG_FIELDS = [[8, 's', 'i'], [8, 's', ''], [8, 'o', '/a'], [8, ['a', 's'], ['i']], [8, ['a', 's'], []], [8, 'u', 5], [8, 'u', 0],
              [8, 's', 'i' * 255], [8, 's', 'i' * 256], [8, 's', 'y' * 300], [8, 's', '\u00e9' * 200], [8, 's', '\u00e9' * 256],
              [8, 'g', 'y' * 255], [8, 'g', 'ih'], [8, 'g', 'h'], [8, 'g', 'hh'], [8, 'g', 'ahs'], [8, 'b', True], [8, 'v', {'vt': 's', 'w': 'i'}],
              [8, ['(', ['s']], ['i']], [8, 'd', 0x3ff0000000000000], None]
FDS_FIELDS = [[9, 'u', 0], [9, 'u', 1], [9, 'u', 2], [9, 'u', 3], [9, 'u', 5], [9, 'u', 2**32 - 1], [9, 'i', -1], [9, 'i', -2], [9, 'i', -7],
              [9, 'i', 2], [9, 's', 'x'], [9, 's', ''], [9, 'b', True], [9, 'b', False], [9, 'd', 0x3ff0000000000000],
              [9, ['a', 'y'], [1]], [9, 'x', -2**63], [9, 't', 2**64 - 1], [9, 'y', 2], [9, 'q', 1], [9, 'g', 'u'], None, None]
FD_LISTS = [None, [], [100], [100, 101, 102], [100, 101, 102, 103, 104]]


def gen_hostile(ctx):
    rng = ctx.rng
    n = 0
    # every signature-field shape x every unix_fds-field shape, descriptor list and body rotating
    combos = [(sf, ff) for sf in SIG_FIELDS for ff in FDS_FIELDS]
    # the 255-character boundary of the SIGNATURE field with a body that matches it
    for nsig in (254, 255, 256, 257):
        for t in ('s', 'g') if nsig <= 255 else ('s',):
            for code in ('y', 'i'):
                yield {'kind': 'hostile', 'mt': 4, 'flags': 0, 'serial': 3,
                       'fields': [[1, 'o', '/a'], [2, 's', 'a.b'], [3, 's', 'M'], [8, t, code * nsig]],
                       'body': {'ts': [code] * nsig, 'ws': [1] * nsig}, 'le': code == 'y', 'fds': []}
    extra = ctx.n(600, 12000)
    for j in range(len(combos) + extra):
        if j < len(combos):
            sf, ff = combos[j]
        else:
            sf, ff = rng.choice(SIG_FIELDS), rng.choice(FDS_FIELDS)
        mt = rng.choice([1, 2, 3, 4, 1, 2, 3, 4, 1, 2, 3, 4, 0, 5, 255]) if j >= len(combos) else 1 + j % 4
        r = rng.random()
        if r < 0.45:
            body = {'ts': ['h'], 'ws': [rng.choice([0, 1, 2, 4, 7])]}
        elif r < 0.6:
            body = {'ts': ['i', 'h', ['a', 'h']], 'ws': [5, rng.choice([0, 1, 3]), [0, 2, 1]]}
        elif r < 0.8:
            body = {'ts': ['i'], 'ws': [rng.choice([0, 1, -7])]}
        else:
            body = None
        if j >= len(combos) and body is not None and rng.random() < 0.6:
            # a SIGNATURE field that does describe the body, as a signature or (accepted by the parser) as a string
            sf = [8, rng.choice(['g', 'g', 's']), ''.join(mc.show(t) for t in body['ts'])]
        fields = [[CODE[a], FIELD_TY[CODE[a]], (NAMES[a][0] if a != 'reply_serial' else 7)] for a in REQ.get(mt, [])]
        if j >= len(combos) and fields and rng.random() < 0.3:
            # a field the parser accepts and _marshal refuses (or converts) when the bus forwards the message
            f = rng.choice(fields)
            if f[0] == 1:
                f[2] = rng.choice(['/a/', 'nopath', '', '/a//b'])
            elif f[0] == 5:
                f[1], f[2] = rng.choice([('i', -5), ('s', '7'), ('x', 2**40), ('y', 9), ('b', True), ('d', 0x4000000000000000)])
            else:
                f[2] = rng.choice(['a\0b', '', 'no dots', '\u00e9'])
        if sf is not None:
            fields.append(list(sf))
        if ff is not None:
            fields.append(list(ff))
        if rng.random() < 0.2:
            fields.append([rng.choice([0, 10, 77, 255]), 's', 'zz'])
        rng.shuffle(fields)
        yield {'kind': 'hostile', 'mt': mt, 'flags': rng.randrange(256), 'serial': rng.choice([0, 1, 9, 2**32 - 1]),
               'fields': fields, 'body': body, 'le': rng.random() < 0.5, 'fds': rng.choice(FD_LISTS)}


def build_impl(message, mt, f, vals, sig, er=True, au=True):
    if mt == 1:
        return message.MethodCallMessage(f.get('path'), f.get('member'), interface=f.get('interface'),
                                         destination=f.get('destination'), signature=sig, body=vals,
                                         expectReply=er, autoStart=au)
    if mt == 2:
        return message.MethodReturnMessage(f.get('reply_serial'), body=vals, destination=f.get('destination'), signature=sig)
    if mt == 3:
        return message.ErrorMessage(f.get('error_name'), f.get('reply_serial'), destination=f.get('destination'),
                                    signature=sig, body=vals, sender=f.get('sender'))
    return message.SignalMessage(f.get('path'), f.get('member'), f.get('interface'), destination=f.get('destination'),
                                 signature=sig, body=vals)


def model_attrs(fields, sig):
    out = []
    for a, v in fields.items():
        if a == 'reply_serial':
            out.append([CODE[a], [9, 117, [0, v]]])
        else:
            out.append([CODE[a], [3, v.encode('utf-8')]] if v is not None else [CODE[a], [10]])
    if sig is not None:
        out.append([8, [3, sig.encode('utf-8')]])
    return out


def construct_line(legacy, mt, er, au, fields, sig, vals, serial0, cur=False):
    body_form = [5, [mc.pv_form(v) for v in vals]] if vals is not None else [10]
    if cur:
        return '(3 8 %d %d %d %s %s %d ())' % (mt, er, au, common.dump(model_attrs(fields, sig)), common.dump(body_form), serial0)
    return '(3 1 %d %d %d %d %s %s %d ())' % (legacy, mt, er, au, common.dump(model_attrs(fields, sig)),
                                              common.dump(body_form), serial0)


def spec_line(le, mt, flags, serial, fields, body):
    """(3 4 ...): fields = [[code, type tree, wire value] ...]"""
    fs = [[code, mc.t_sexp(t), mc.w_sexp(t, w)] for code, t, w in fields]
    tss = [mc.t_sexp(t) for t in body['ts']] if body else []
    wss = [mc.w_sexp(t, w) for t, w in zip(body['ts'], body['ws'])] if body else []
    return '(3 4 %d %d %d %d %s %s %s ())' % (le, mt, flags, serial, common.dump(fs), common.dump(tss), common.dump(wss))


def obs_parsed(m):
    """canonical observation of a parsed message object: what the property says is recovered"""
    attrs = {}
    for code, a in ATTR.items():
        if a in m.__dict__:
            attrs[code] = mc.pv_form(m.__dict__[a])
    body = m.__dict__.get('body', None)
    return [m._messageType, m.serial, 1 if m.expectReply else 0, 1 if m.autoStart else 0,
            attrs, None if body is None else [mc.pv_form(x) for x in body]]


def model_parsed(o):
    if o[0] != 1:
        return ('err', o[1])
    attrs = {}
    for code, v in o[5]:
        attrs[code] = v          # setattr: later entries win
    body = o[6][0] if o[6] else None
    return ('ok', [o[1], o[2], o[3], o[4], attrs, body])


def spec_recovered(o):
    attrs = {}
    for code, v in o[7]:
        attrs[code] = v
    body = o[8][0] if o[8] else None
    return [o[3], o[4], o[5], o[6], attrs, body]


def parse_impl(message, raw, fds=()):
    """-> (observation against Model/Message.v, observation against Model/MessageCur.v, the message object)"""
    try:
        m = message.parseMessage(raw, None if fds is None else list(fds))
        o = obs_parsed(m)
        return ('ok', o), ('ok', o + [m._otherFlags, bytes(m.rawBody)]), m
    except Exception as e:
        return ('err', type(e).__name__), ('err', type(e).__name__), None


def model_parsed_cur(o):
    if o[0] != 1:
        return ('err', o[1])
    return ('ok', model_parsed(o)[1] + [o[7], o[8]])


SENDER = ':1.42'


def remarshal_impl(message, m, raw):
    """what bus.py does before forwarding: -> ('ok', hdr, pad, body) | ('err', name), counter delta"""
    M = message.DBusMessage
    n0 = M._nextSerial
    try:
        m.sender = SENDER
        m.endian = raw[0]
        m._marshal(False, rawBody=m.rawBody)
        r = ('ok', bytes(m.rawHeader), bytes(m.rawPadding), bytes(m.rawBody))
    except Exception as e:
        r = ('err', type(e).__name__)
    return r, M._nextSerial - n0


def fds_sexp(fds):
    return '()' if fds is None else '(%s)' % common.dump([[0, x] for x in fds])


def table_view(message, o):
    """a cur observation restricted to what _marshal writes: the attributes of the class table of the type"""
    mt = o[0]
    codes = {1: (1, 2, 3, 6, 7, 8), 2: (5, 6, 7, 8), 3: (4, 5, 6, 7, 8), 4: (1, 2, 3, 6, 7, 8)}[mt]
    return [o[0], o[1], o[2], o[3], {c: v for c, v in o[4].items() if c in codes and v != [10]}, o[5], o[6], o[7]]


def layout_defect(hdr, pad, body, serial):
    """the well-formedness clauses of the property text, checked directly on the bytes"""
    if len(hdr) < 16 or hdr[0:1] != b'l' or hdr[3] != 1:
        return 'bad fixed header'
    if struct.unpack('<I', hdr[4:8])[0] != len(body):
        return 'declared body length %d != body length %d' % (struct.unpack('<I', hdr[4:8])[0], len(body))
    if pad != b'\0' * ((8 - len(hdr) % 8) % 8):
        return 'header padding is not zero bytes to an 8-byte boundary'
    if struct.unpack('<I', hdr[12:16])[0] + 16 != len(hdr):
        return 'header array length does not match the header'
    if struct.unpack('<I', hdr[8:12])[0] != serial:
        return 'serial %r is not the one in the header' % (serial,)
    return None


def independent_fields(raw):
    """(field codes in order, declared body length, real body length) read straight off the wire, little-endian,
    without the library: the header-field array is a(yv); only the codes and the value of code 9 (u) are needed."""
    import struct as _s
    blen, _serial, alen = _s.unpack_from('<III', raw, 4)
    pos, end, codes, nfds = 16, 16 + alen, [], None
    while pos < end:
        pos += (-pos) % 8
        code = raw[pos]
        slen = raw[pos + 1]
        vsig = raw[pos + 2:pos + 2 + slen].decode('ascii')
        pos += 2 + slen + 1
        if vsig in ('s', 'o'):
            pos += (-pos) % 4
            n = _s.unpack_from('<I', raw, pos)[0]
            pos += 4 + n + 1
        elif vsig == 'g':
            pos += 1 + raw[pos] + 1
        elif vsig == 'u':
            pos += (-pos) % 4
            if code == 9:
                nfds = _s.unpack_from('<I', raw, pos)[0]
            pos += 4
        else:
            raise ValueError('unexpected header field type %r' % vsig)
        codes.append(code)
    body_at = end + (-end) % 8
    return codes, blen, len(raw) - body_at, nfds


def evaluate_fdseq(ctx, cases, res):
    """fdseq: several descriptor-carrying messages of one class built one after the other in one process.
    Oracle only (the C03 theorems exclude descriptors; C20 owns their attribution): every message is well-formed -
    each header field at most once, UNIX_FDS declared = descriptors passed, declared body length = real one."""
    from txdbus import message
    for c in cases:
        mt, counts = c['mt'], c['counts']
        for j, n in enumerate(counts):
            sig = 'h' * n + ('s' if j % 2 else '')
            body = [100 + k for k in range(n)] + (['x'] if j % 2 else [])
            fds = []          # callers pass a fresh out-of-band list; marshal_unix_fd fills it
            try:
                if mt == 1:
                    m = message.MethodCallMessage('/a', 'M', signature=sig or None, body=body or None, oobFDs=fds)
                elif mt == 2:
                    m = message.MethodReturnMessage(7, signature=sig or None, body=body or None, oobFDs=fds)
                elif mt == 3:
                    m = message.ErrorMessage('a.Err', 7, signature=sig or None, body=body or None, oobFDs=fds)
                else:
                    m = message.SignalMessage('/a', 'M', 'a.b', signature=sig or None, body=body or None, oobFDs=fds)
                raw = m.rawMessage
            except TypeError:
                return      # this tree's constructors take no oobFDs argument: nothing to judge here
            except Exception as e:
                res.violate(c, 'message %d of the sequence (%d descriptors) could not be constructed: %s: %s'
                            % (j, n, type(e).__name__, e), 'fdseq:construct-fails')
                break
            codes, blen, real, nfds = independent_fields(raw)
            res.count(['fdseq', mt, counts[:j + 1]], nontrivial=n > 0)
            if len(set(codes)) != len(codes):
                res.violate({'kind': 'fdseq', 'mt': mt, 'counts': counts[:j + 1]},
                            'header field codes %r: a field occurs twice in message %d of the sequence' % (codes, j),
                            'fdseq:header-field-repeated')
            if (nfds or 0) != n:
                res.violate({'kind': 'fdseq', 'mt': mt, 'counts': counts[:j + 1]},
                            'message %d carries %d descriptors but declares UNIX_FDS=%r' % (j, n, nfds), 'fdseq:unix-fds-count')
            if blen != real:
                res.violate({'kind': 'fdseq', 'mt': mt, 'counts': counts[:j + 1]},
                            'declared body length %d, real %d' % (blen, real), 'fdseq:body-length')


def evaluate(ctx, cases, res):
    from txdbus import message, marshal, error
    cases = list(cases)
    evaluate_fdseq(ctx, [c for c in cases if c.get('kind') == 'fdseq'], res)
    cases = [c for c in cases if c.get('kind') != 'fdseq']
    if not cases:
        return
    M = message.DBusMessage
    prep = {}
    lines = []
    stats = {'build': 0, 'foreign': 0, 'invalid': 0, 'badbody': 0, 'toolong': 0, 'hostile': 0}
    dist = {'types': {}, 'optional_subsets': {}, 'flags': {}, 'sigmodes': {}, 'byte_order': {}, 'body_codes': {},
            'unknown_field_codes': 0, 'repeated_fields': 0}

    def bump(d, k):
        d[k] = d.get(k, 0) + 1

    # ---- stage 1: run the constructors; model construct + specification lines --------------------
    for i, c in enumerate(cases):
        k = c['kind']
        if k == 'build':
            srng = random.Random(c['shape'])
            sig, vals = None, None
            if c['body'] is not None:
                shapes = mc.Shapes(srng, marshal)
                vals = [shapes.py(t, w) for t, w in zip(c['body']['ts'], c['body']['ws'])]
                if any(mc.has_none(v) for v in vals):
                    prep[i] = None                # no Python value makes sigFromPy infer this variant type
                    lines += ['(0)', '(0)', '(0)', '(0)']
                    continue
                sig = ''.join(mc.show(t) for t in c['body']['ts'])
            elif c['sigmode'] == 1:
                sig = ''                          # empty signature string, no body
            serial0 = M._nextSerial
            try:
                m = build_impl(message, c['mt'], c['fields'], vals, sig, c['er'], c['au'])
                im = ('ok', m.rawHeader, m.rawPadding, m.rawBody, m.serial)
            except Exception as e:
                im = ('err', type(e).__name__)
            serial1 = M._nextSerial
            prep[i] = (sig, vals, serial0, serial1, im)
            lines.append(construct_line(0, c['mt'], c['er'], c['au'], c['fields'], sig, vals, serial0))
            # the wire message this constructor call denotes: fields in code order
            fs = []
            for code in sorted(ATTR):
                a = ATTR[code]
                if a in c['fields']:
                    fs.append([code, FIELD_TY[code], c['fields'][a]])
                elif a == 'signature' and sig is not None:
                    fs.append([8, 'g', sig])
            flags = (0 if c['er'] else 1) | (0 if c['au'] else 2)
            lines.append(spec_line(1, c['mt'], flags, serial0, fs, c['body']))
            # do the Python values conform to the signature (Spec/Conforms.v)?  By C02 the model's encoding of
            # conforming values IS the specification encoding; where they differ the shape generator produced
            # a value whose inferred variant type is not the intended one, and the case is outside the property
            if vals is not None:
                lines.append('(1 1 %s %s 0 1 ())' % (common.dump(sig.encode()), common.dump([5, [mc.pv_form(v) for v in vals]])))
            else:
                lines.append('(0)')
            lines.append(construct_line(0, c['mt'], c['er'], c['au'], c['fields'], sig, vals, serial0, cur=True))
        elif k == 'foreign':
            fl = [list(f) for f in c['fields']]
            body = c['body']
            if body is not None:
                fl.insert(c['sigpos'] % (len(fl) + 1), [8, 'g', ''.join(mc.show(t) for t in body['ts'])])
            elif c.get('sigmode') == 1:
                fl.insert(c['sigpos'] % (len(fl) + 1), [8, 'g', ''])
            prep[i] = fl
            lines.append(spec_line(c['le'], c['mt'], c['flags'], c['serial'], fl, body))
            lines += ['(0)', '(0)', '(0)']
        elif k == 'hostile':
            lines.append(spec_line(c['le'], c['mt'], c['flags'], c['serial'], c['fields'], c['body']))
            lines += ['(0)', '(0)', '(0)']
        elif k == 'invalid':
            f = {'path': '/a', 'member': 'M', 'interface': 'a.b', 'error_name': 'a.E', 'reply_serial': 1}
            f[c['attr']] = c['value']
            fields = {a: f[a] for a in REQ[c['mt']] + [c['attr']]}
            serial0 = M._nextSerial
            try:
                build_impl(message, c['mt'], fields, None, None)
                built = True
            except Exception:
                built = False
            prep[i] = (fields, serial0, M._nextSerial, built)
            lines.append('(18 %s)' % common.dump(c['value']))
            lines.append(construct_line(0, c['mt'], 1, 1, fields, None, None, serial0))
            lines.append('(0)')
            lines.append(construct_line(0, c['mt'], 1, 1, fields, None, None, serial0, cur=True))
        elif k == 'badbody':
            f = {'path': '/a', 'member': 'M', 'interface': 'a.b', 'error_name': 'a.E', 'reply_serial': 1}
            fields = {a: f[a] for a in REQ[c['mt']]}
            serial0 = M._nextSerial
            try:
                build_impl(message, c['mt'], fields, c['vals'], c['sig'])
                built = True
            except Exception:
                built = False
            prep[i] = (fields, serial0, M._nextSerial, built)
            lines.append(construct_line(0, c['mt'], 1, 1, fields, c['sig'], c['vals'], serial0))
            lines += ['(0)', '(0)']
            lines.append(construct_line(0, c['mt'], 1, 1, fields, c['sig'], c['vals'], serial0, cur=True))
        else:
            lines += ['(0)', '(0)', '(0)', '(0)']
    out1 = common.run_model(lines)

    # ---- stage 2: parse (implementation, model, legacy model, current model), frame length, bus-style re-marshal ----
    lines2 = []
    stage2 = {}
    for i, c in enumerate(cases):
        k = c['kind']
        raw = None
        fds = []
        if k == 'build' and prep[i] is not None and prep[i][4][0] == 'ok':
            im = prep[i][4]
            raw = im[1] + im[2] + im[3]
            le = 1
        elif k in ('foreign', 'hostile'):
            sp = out1[4 * i]
            raw = sp[0] + sp[1] + sp[2]
            le = 1 if c['le'] else 0
            if k == 'hostile':
                fds = c['fds']
        if raw is not None:
            pm, pmc, mobj = parse_impl(message, raw, fds)
            rm = delta = rp = None
            if mobj is not None:
                rm, delta = remarshal_impl(message, mobj, raw)
                if rm[0] == 'ok':
                    rp = parse_impl(message, rm[1] + rm[2] + rm[3], fds)[1]
            stage2[i] = (raw, pm, pmc, rm, delta, rp)
            lines2.append('(3 2 0 %s (()))' % common.dump(raw))
            lines2.append('(3 3 %d %s)' % (le, common.dump(raw + b'\x01\x02\x03')))
            lines2.append('(3 2 1 %s (()))' % common.dump(raw))       # the pre-repair parseMessage (D04)
            lines2.append('(3 5 %s %s)' % (common.dump(raw), fds_sexp(fds)))
            lines2.append('(3 7 %s %s %s)' % (common.dump(raw), fds_sexp(fds), common.dump(SENDER.encode())))
        else:
            lines2 += ['(0)', '(0)', '(0)', '(0)', '(0)']
    out2 = common.run_model(lines2)

    def check_cur(i, c, oracle):
        """current-model correspondence of parse and bus-style re-marshal; oracle: the forwarded bytes parse to the
        same message with the new sender"""
        raw, pm, pmc, rm, delta, rp = stage2[i]
        mc_ = model_parsed_cur(out2[5 * i + 3])
        if pmc[0] != mc_[0] or (pmc[0] == 'ok' and pmc[1] != mc_[1]):
            res.disagree(c, pmc, mc_, 'cur_parse')
        mr = out2[5 * i + 4]
        if pmc[0] != 'ok':
            return
        mrr = ('ok', mr[1], mr[2], mr[3]) if mr[0] == 1 else ('err', mr[1:])
        if mr[0] == 0 and mr[2] == 9:
            cur['remarshal_unmodelled'] += 1      # ObjectPath / Signature / UInt32 of a value of another type: str() / int()
        elif rm[0] != mrr[0] or (rm[0] == 'ok' and rm != mrr):
            res.disagree(c, rm, mrr, 'cur_remarshal')
        if delta != 0:
            res.disagree(c, ('counter', delta), ('counter', 0), 'cur_remarshal_counter')
        cur['remarshal_ok' if rm[0] == 'ok' else 'remarshal_err'] += 1
        if not oracle:
            return
        if rm[0] != 'ok':
            res.violate(c, 'the bus-style re-marshal of a conformant message failed: %s' % (rm,), 'remarshal-fails')
            return
        want = list(pmc[1])
        want[4] = dict(want[4])
        want[4][7] = [3, SENDER.encode()]
        if rp[0] != 'ok' or table_view(message, rp[1]) != table_view(message, want):
            res.violate(c, 're-marshalled with sender %s the message parses to %r, it was %r' % (SENDER, rp, want),
                        'remarshal-changes-message')

    cur = {'remarshal_ok': 0, 'remarshal_err': 0, 'remarshal_unmodelled': 0, 'hostile_parse_ok': 0, 'hostile_parse_err': 0}

    # ---- compare ---------------------------------------------------------------------------------------
    seen_serials = evaluate.seen_serials
    legacy_d04 = legacy_d27 = nonconf = 0
    for i, c in enumerate(cases):
        k = c['kind']
        if k == 'build':
            if prep[i] is None:
                continue
            stats['build'] += 1
            sig, vals, serial0, serial1, im = prep[i]
            nontrivial = bool(c['body']) or len(c['fields']) > len(REQ[c['mt']]) or not c['er'] or not c['au']
            res.count(c, nontrivial=nontrivial)
            bump(dist['types'], c['mt'])
            bump(dist['optional_subsets'], '%d:%s' % (c['mt'], '+'.join(sorted(a for a in c['fields'] if a in OPT[c['mt']])) or '-'))
            bump(dist['flags'], '%d%d' % (c['er'], c['au']))
            bump(dist['sigmodes'], 'body' if c['body'] else ('empty' if c['sigmode'] == 1 else 'none'))
            if c['body']:
                for t in c['body']['ts']:
                    bump(dist['body_codes'], mc.show(t)[0])
            mo = out1[4 * i]
            sp = out1[4 * i + 1]
            mm = ('ok', mo[1], mo[2], mo[3], serial0) if mo[0] == 1 else ('err', mo[1])
            if im[0] != mm[0] or (im[0] == 'ok' and im[1:5] != mm[1:5]):
                res.disagree(c, im, mm, 'model_construct')
            if im[0] == 'ok' and serial1 != mo[-1]:
                res.disagree(c, ('counter', serial0, serial1), ('counter', serial0, mo[-1]), 'model_counter')
            mc3 = out1[4 * i + 3]                 # the same call through MessageCur.construct_cur_st
            mm3 = ('ok', mc3[1], mc3[2], mc3[3], serial0) if mc3[0] == 1 else ('err', mc3[1])
            if im[0] != mm3[0] or (im[0] == 'ok' and (im[1:5] != mm3[1:5] or serial1 != mc3[-1])):
                res.disagree(c, im, mm3, 'cur_construct')
            if serial1 < serial0:
                res.violate(c, 'the serial counter went backwards: %d -> %d' % (serial0, serial1), 'serial-counter-decreased')
            conforming = True
            if vals is not None:
                mb = out1[4 * i + 2]
                conforming = mb[0] == 1 and mb[2] == sp[2]
            if not conforming:
                nonconf += 1
            if im[0] != 'ok':
                if conforming:
                    res.violate(c, 'a valid message could not be constructed: %s' % (im,), 'construct-fails')
                continue
            hdr, pad, body, serial = im[1], im[2], im[3], im[4]
            raw, pm = stage2[i][0], stage2[i][1]
            mp = model_parsed(out2[5 * i])
            if pm[0] != mp[0] or (pm[0] == 'ok' and pm[1] != mp[1]):
                res.disagree(c, pm, mp, 'model_parse_own')
            check_cur(i, c, oracle=conforming)
            # oracle 1: the layout clauses of the property text, directly on the bytes (every constructed message)
            why = layout_defect(hdr, pad, body, serial)
            if why is None and (serial == 0 or serial in seen_serials or not (0 < serial < 2**32)):
                why = 'serial %r is zero or was used before in this process' % (serial,)
            if why is None and out2[5 * i + 1] != len(raw):
                why = 'frame length computed from the first 16 bytes (%r) != message length %d' % (out2[5 * i + 1], len(raw))
            seen_serials.add(serial)
            if why:
                res.violate(c, why, 'malformed-own-message')
            if not conforming:
                continue
            # oracle 2: the bytes are the specification encoding of the message
            if (hdr, pad, body) != (sp[0], sp[1], sp[2]):
                res.violate(c, 'constructor bytes %s differ from the specification encoding %s'
                            % ((hdr + pad + body).hex(), (sp[0] + sp[1] + sp[2]).hex()), 'not-spec-encoding')
            # oracle 3: parsing the produced bytes recovers what the specification says
            want = spec_recovered(sp)
            if pm[0] != 'ok':
                res.violate(c, 'own message failed to parse: %s' % (pm,), 'parse-own-fails')
            elif pm[1] != want:
                res.violate(c, 'parsing the produced bytes gave %r, constructed %r' % (pm[1], want), 'parse-own-differs')
            # and what was constructed, independently of the extracted specification
            want_attrs = {}
            for a, v in c['fields'].items():
                want_attrs[CODE[a]] = [0, v] if a == 'reply_serial' else [3, v.encode('utf-8')]
            if sig is not None:
                want_attrs[8] = [3, sig.encode('utf-8')]
            want_body = [mc.expected(t, w) for t, w in zip(c['body']['ts'], c['body']['ws'])] if c['body'] else None
            want2 = [c['mt'], serial, 1 if c['er'] else 0, 1 if c['au'] else 0, want_attrs, want_body]
            if pm[0] == 'ok' and pm[1] != want2:
                res.violate(c, 'parsing the produced bytes gave %r, constructed %r' % (pm[1], want2), 'parse-own-differs')
            lp = model_parsed(out2[5 * i + 2])
            if lp != mp:
                legacy_d04 += 1
            res.sample({'kind': 'build', 'mt': c['mt'], 'raw': raw.hex()}, limit=3)
        elif k == 'foreign':
            stats['foreign'] += 1
            fl = prep[i]
            codes = [f[0] for f in fl]
            res.count(c, nontrivial=True)
            bump(dist['byte_order'], 'little' if c['le'] else 'big')
            if any(code not in ATTR for code in codes):
                dist['unknown_field_codes'] += 1
            if len(set(codes)) != len(codes):
                dist['repeated_fields'] += 1
            raw, pm = stage2[i][0], stage2[i][1]
            sp = out1[4 * i]
            mp = model_parsed(out2[5 * i])
            if pm[0] != mp[0] or (pm[0] == 'ok' and pm[1] != mp[1]):
                res.disagree(c, pm, mp, 'model_parse_foreign')
            want = spec_recovered(sp)
            known = [code for code in codes if code in ATTR]
            check_cur(i, c, oracle=len(set(known)) == len(known))
            if len(set(known)) != len(known):
                pass        # a repeated header field is not spec-conformant: correspondence only, no oracle
            elif pm[0] != 'ok':
                res.violate(c, 'spec-conformant foreign message failed to parse: %s' % (pm,), 'parse-foreign-fails')
            elif pm[1] != want:
                res.violate(c, 'foreign message parsed to %r, it encodes %r' % (pm[1], want), 'parse-foreign-differs')
            if out2[5 * i + 1] != len(raw):
                res.violate(c, 'frame length from the first 16 bytes (%r) != message length %d' % (out2[5 * i + 1], len(raw)), 'frame-length')
            if model_parsed(out2[5 * i + 2]) != mp:
                legacy_d04 += 1
            res.sample({'kind': 'foreign', 'le': c['le'], 'raw': raw.hex()}, limit=5)
        elif k == 'hostile':
            stats['hostile'] += 1
            res.count(c, nontrivial=True)
            check_cur(i, c, oracle=False)
            cur['hostile_parse_ok' if stage2[i][2][0] == 'ok' else 'hostile_parse_err'] += 1
            res.sample({'kind': 'hostile', 'fds': c['fds'], 'raw': stage2[i][0].hex(), 'parsed': stage2[i][2][0]}, limit=8)
        elif k in ('invalid', 'badbody'):
            stats[k] += 1
            res.count(c, nontrivial=True)
            fields, serial0, serial1, built = prep[i]
            mo = out1[4 * i + (1 if k == 'invalid' else 0)]
            if built != (mo[0] == 1):
                res.disagree(c, ('built', built), ('model', mo), 'model_construct')
            elif built and serial1 != mo[-1]:
                res.disagree(c, ('counter', serial0, serial1), ('counter', serial0, mo[-1]), 'model_counter')
            mc3 = out1[4 * i + 3]
            if built != (mc3[0] == 1) or (built and serial1 != mc3[-1]):
                res.disagree(c, ('built', built, serial1), ('model', mc3), 'cur_construct')
            if serial1 < serial0:
                res.violate(c, 'the serial counter went backwards: %d -> %d' % (serial0, serial1), 'serial-counter-decreased')
            if k == 'invalid':
                kind_idx = {'path': 0, 'interface': 1, 'error_name': 2, 'destination': 3, 'member': 4}[c['attr']]
                grammar_ok = out1[4 * i][kind_idx][2]
                if built and not grammar_ok:
                    res.violate(c, 'message constructed carrying %s=%r, which the DBus grammar rejects' % (c['attr'], c['value']),
                                'carries-invalid-%s' % c['attr'])
                if not built and grammar_ok:
                    res.violate(c, 'a message with the valid %s %r could not be constructed' % (c['attr'], c['value']), 'construct-fails')
        elif k == 'toolong':
            stats['toolong'] += 1
            res.count(c, nontrivial=True)
            serial0 = M._nextSerial
            small = message.MethodReturnMessage(1, body=['x'], signature='s')
            overhead = len(small.rawMessage) - 1
            try:
                m = message.MethodReturnMessage(1, body=['x' * (2**27 - overhead)], signature='s')
                if len(m.rawMessage) != 2**27 or m.bodyLength != len(m.rawBody):
                    res.violate(c, 'the message of exactly 2^27 bytes came out with %d bytes' % len(m.rawMessage), 'malformed-own-message')
                del m
            except Exception as e:
                res.violate(c, 'a message of exactly 2^27 bytes could not be constructed: %s' % type(e).__name__, 'construct-fails')
            try:
                m = message.MethodReturnMessage(1, body=['x' * (2**27 - overhead + 1)], signature='s')
                res.violate(c, 'a message of %d > 2^27 bytes was constructed' % len(m.rawMessage), 'too-long-constructed')
                del m
            except Exception:
                pass
            if M._nextSerial < serial0:
                res.violate(c, 'the serial counter went backwards', 'serial-counter-decreased')
    # legacy models as built-in mutants: does this run's input distinguish them from the current model?
    d27 = common.run_model([construct_line(1, 1, 1, 1, {'path': '/a', 'member': 'M', 'interface': ''}, None, None, 1),
                            construct_line(0, 1, 1, 1, {'path': '/a', 'member': 'M', 'interface': ''}, None, None, 1)])
    legacy_d27 = 1 if d27[0][0] != d27[1][0] else 0
    ex = res.extra
    for kk, v in stats.items():
        ex.setdefault('kinds', {})[kk] = ex.get('kinds', {}).get(kk, 0) + v
    ex['distribution'] = dist
    ex['legacy_variants_distinguished'] = {'D04 parseMessage ignores flags': legacy_d04 > 0,
                                           'D27 empty interface not validated': bool(legacy_d27) and any(
                                               c['kind'] == 'invalid' and c['value'] == '' for c in cases)}
    ex['legacy_D04_cases'] = legacy_d04
    for kk, v in cur.items():
        ex.setdefault('current_model', {})[kk] = ex.get('current_model', {}).get(kk, 0) + v
    ex['nonconforming_shapes_skipped'] = ex.get('nonconforming_shapes_skipped', 0) + nonconf


evaluate.seen_serials = set()


def run(ctx, res):
    res.rule = ('exhaustively 4 message classes x every subset of optional fields x both flags x {no, empty, non-empty} signature, '
                'then the same space with random names and typed bodies from the C01 generator in random Python shapes (build); '
                'specification-encoded wire messages in either byte order with shuffled, unknown and repeated header fields, all '
                'flag bytes (foreign); constructor calls with one grammar-invalid name (invalid) or a non-conforming body (badbody); '
                'one message above 2^27 bytes; sequences of descriptor-carrying messages of one class built in one process (fdseq, oracle only).  Non-trivial: a build with a body, an optional field or a cleared flag; every other case')
    evaluate.seen_serials = set()
    evaluate(ctx, gen_cases(ctx), res)
