"""C08 correspondence: the pending-call bookkeeping of txdbus.client.DBusClientConnection
(callRemote, callRemoteMessage, _onMethodTimeout, methodReturnReceived, errorReceived,
_cbCvtReply, connectionLost) vs Model/Calls.v (model) and Spec/CallSpec.v (oracle).

A case is [serial0, [event, ...]] (encoding in coq/Model/OpsC08.v).  The real class is
driven over a fake transport with a task.Clock as reactor; replies are fed as raw bytes
built with MethodReturnMessage / ErrorMessage(...).rawMessage (the harness plays the
remote peer, so building them must not consume local serials: the process-wide counter
is saved and restored around it).

Extended case forms (all JSON-serialisable):
  [serial0, events, {"cb": m}]   what the harness's own callbacks on the returned Deferreds hand back to the
                                 rest of their chain: 0 None, 1 a value, 2 a Deferred that has not fired
  call event with a 5th element  [0, kind, timeout, retsig, {"raw": 1, "then": [event, ...]}]
                                 raw: the call is made with the public pair MethodCallMessage(...) +
                                 callRemoteMessage(msg, timeout) (the harness keeps the message object);
                                 then: events the caller performs from inside the completion callback of
                                 this call (further calls, a re-send, loss of the connection)
  [5, ref, timeout, {"then": ...}]  the message object of call number ref (None: the call whose completion
                                 callback is running) is sent again with callRemoteMessage; legal only once
                                 the previous call with that serial has completed
A history with continuations is judged against the existing model / specification on its FLATTENING: the events
of a continuation are placed directly after the event that ends the owning call, and a re-sent message is an
ordinary new call (the model gives it a fresh serial; reply serials are translated, see Plan)."""
import itertools

from harness import common

ASSUMPTIONS = [
    'user callbacks on the returned Deferreds record the completion; in the continuation families they also call '
    'back into the connection from inside the completion callback (new calls, the same MethodCallMessage sent '
    'again with callRemoteMessage once its previous call has completed, connectionLost delivered synchronously '
    'as in-memory transports do).  Such a history is judged as its flattening: the continuation placed directly '
    'after the event that ends the owning call; the flattening is computed in Python from the property text '
    '(a call is ended by the first return / error reply carrying its serial, its deadline, or the loss) and then '
    'given to the Coq model and specification.  Continuations are not run for calls ended by the loss of the '
    'connection (a callback that issues a new call from inside connectionLost makes the loop over _pendingCalls '
    'raise "dictionary changed size during iteration"; that reentrancy is reported separately), and no data or '
    'timer is delivered from inside a callback',
    'what a user callback returns to the rest of its own Deferred chain (None, a value, an unfired Deferred) is '
    'no input of the model: by the property no completion of one call may reach another call, so every case is '
    'judged by the same model answer whatever the callbacks return',
    'a call made with callRemoteMessage completes with the reply message itself; the harness reads its public '
    'signature / body attributes and applies the documented convention (no value None, one non-struct value that '
    'value, else the list) before comparing with the model outcome for an undeclared return signature',
    'within one top-level event of a history with continuations only the set of completions, and _pendingCalls / '
    'timers after the whole event, are compared (not the state seen from inside a callback)',
    'the connection has completed authentication and Hello (busName set) before the history starts; '
    'loss before that point belongs to C09',
    'replies are well-formed messages whose signature and body agree (codec and parser: C01-C03, C05); '
    'the model is given the signature header and the decoded values',
    'a timeout of 0 is read as "no deadline" (the code tests truthiness; the docstring says "if specified")',
    'timer expiry is scheduled by the harness: the k-th expiry event of a history is virtual time k+1 and each '
    'call is given the timeout that makes its deadline fall on its first expiry event (calls whose deadline '
    'never passes get a far one); the clock is first advanced to just before that time to see nothing fires early',
    'events after connection loss are modelled as the code behaves (a call made then is registered and only '
    'its own deadline can end it); Twisted delivers no data after connectionLost, the property does not speak of it',
    'within one event (connection loss) the order of the completions is not compared',
    'the text of the RemoteError raised for a return-signature mismatch is not compared, only its class',
]

MAXS = 2 ** 32 - 1

REPLIES = [
    [[], []], [[''], []], [['i'], [7]], [['s'], ['hi']], [['ii'], [1, 2]], [['(ii)'], [[1, 2]]],
    [['ai'], [[1, 2, 3]]], [['a(ii)'], [[[1, 2], [3, 4]]]], [['(i)s'], [[1], 'x']], [['as'], [[]]],
    [['o'], ['/a/b']], [['(s)'], [['q']]], [['is'], [5, 'five']], [['s'], ['']],
]
RETSIGS = [[], [0], [1, ''], [1, 'i'], [1, 's'], [1, 'ii'], [1, '(ii)'], [1, 'ai'], [1, '('], [1, 'is'],
           [1, '(i)s'], [1, 'a(ii)']]
ERRNAMES = ['org.x.Err', 'a.b', 'org.freedesktop.DBus.Error.UnknownMethod']
ERRBODIES = [
    [[], []], [[''], []], [['s'], ['boom']], [['si'], ['boom', 3]], [['is'], [3, 'boom']],
    [['as'], [['a', 'b']]], [['o'], ['/p']], [['s'], ['']], [['(s)i'], [['in'], 4]], [['ss'], ['m1', 'm2']],
]


# --------------------------------------------------------------------------
# the implementation side
class FakeTransport:
    disconnecting = False

    def __init__(self):
        self.out = []

    def write(self, data):
        self.out.append(data)

    def writeSequence(self, seq):
        self.out.append(b''.join(seq))

    def loseConnection(self):
        self.disconnecting = True


class Impl:
    """Lazily imported handles on the tree under test."""

    def __init__(self):
        from twisted.internet import task
        from twisted.internet import error as terror
        from twisted.python import failure
        from twisted.internet import defer
        import txdbus.client
        import txdbus.protocol
        from txdbus import message, error
        txdbus.protocol._is_linux = False
        self.task, self.terror, self.failure, self.defer = task, terror, failure, defer
        self.client, self.message, self.error = txdbus.client, message, error
        self.rawcache = {}

    def connect(self):
        clock = self.task.Clock()
        self.client.reactor = clock
        self.message.DBusMessage._nextSerial = 1      # a previous case may have left it beyond 2^32
        f = self.client.DBusClientFactory()
        p = f.buildProtocol(None)
        p.makeConnection(FakeTransport())
        p.dataReceived(b'OK 1234abcd\r\n')
        assert p._authenticated, 'fake handshake failed'
        hello = list(p._pendingCalls)
        assert len(hello) == 1
        p.dataReceived(self.raw(1, hello[0], None, [['s'], [':1.42']]))
        # what Hello leaves behind is not asserted here: it shows up in the observations
        assert p.busName == ':1.42', 'Hello reply was not delivered'
        return p, clock

    def raw(self, kind, serial, name, m):
        key = (kind, serial, name, repr(m))
        r = self.rawcache.get(key)
        if r is None:
            sig = m[0][0] if m[0] else None
            body = m[1] if sig else None
            saved = self.message.DBusMessage._nextSerial
            self.message.DBusMessage._nextSerial = 1      # the peer has its own counter
            try:
                if kind == 1:
                    r = self.message.MethodReturnMessage(serial, signature=sig, body=body).rawMessage
                else:
                    r = self.message.ErrorMessage(name, serial, signature=sig, body=body).rawMessage
            finally:
                self.message.DBusMessage._nextSerial = saved
            if len(self.rawcache) < 200000:
                self.rawcache[key] = r
        return r


def canon_val(v):
    if isinstance(v, bool):
        return int(v)
    if isinstance(v, int):
        return v
    if isinstance(v, str):
        return v.encode('latin-1')
    if isinstance(v, (list, tuple)):
        return [canon_val(x) for x in v]
    return ['?', repr(v)]


def plan_timers(s0, events):
    """virtual time of each expiry event, the timeout to give each call, and time -> serial"""
    timer_idx = [i for i, e in enumerate(events) if e[0] == 3]
    ordinal = {i: k for k, i in enumerate(timer_idx)}
    timeouts = {}
    due = {}
    ser = s0
    far = 0
    for i, e in enumerate(events):
        if e[0] != 0:
            continue
        kind, tmo = e[1], e[2]
        if kind == 2:
            continue
        serial = ser
        ser += 1
        if not tmo:
            timeouts[i] = None
        elif tmo[0] == 0:
            timeouts[i] = 0
        else:
            now = sum(1 for j in timer_idx if j < i)
            first = next((j for j in timer_idx if j > i and events[j][1] == serial), None)
            if first is None:
                far += 1
                t = 1000 + far
            else:
                t = ordinal[first] + 1
            timeouts[i] = t - now
            if kind == 0 and serial <= MAXS:
                due[float(t)] = serial
    return ordinal, timeouts, due


INVALID_CALLS = [
    dict(objectPath='/a', methodName='bad name'),
    dict(objectPath='/org/freedesktop/DBus/Local', methodName='M'),
    dict(objectPath='/a', methodName='M', signature='i', body=['not an int']),
    dict(objectPath='/a', methodName='M', interface='no-dots'),
]


# --------------------------------------------------------------------------
# histories with continuations: flattening (computed from the property text, independent of the implementation)
def clone(x):
    if isinstance(x, (list, tuple)):
        return [clone(e) for e in x]
    if isinstance(x, dict):
        return {k: clone(v) for k, v in x.items()}
    return x


def ext_of(e):
    if e[0] == 0 and len(e) > 4 and e[4]:
        return e[4]
    if e[0] == 5 and len(e) > 3 and e[3]:
        return e[3]
    return {}


def is_nested(events):
    return any(e[0] == 5 or (e[0] == 0 and len(e) > 4) for e in events)


class Plan:
    """events: private copy of the case's events; flat: the history given to the model; group[k]: index of the
    top-level event during which flat event k happens; at[id(node)]: flat index of an event node;
    wire_of[model serial] = serial on the wire (they differ once a message has been sent again: the model numbers
    every call afresh); ordinal / timeouts / due: plan_timers of the flat history"""


def make_plan(case):
    s0 = case[0]
    pl = Plan()
    pl.cb = (case[2] or {}).get('cb', 0) if len(case) > 2 else 0
    pl.nested = is_nested(case[1])
    pl.reissues = 0
    if not pl.nested:
        pl.events = pl.flat = case[1]
        pl.group = pl.at = pl.wire_of = None        # flat index = position
    else:
        pl.events = clone(case[1])                   # event nodes are told apart by identity
        if s0 < 1:
            raise ValueError('bad event: continuation histories need a first serial >= 1')
        flat, group, at, wire_of = [], [], {}, {}
        latest = {}          # wire serial -> model serial of the latest call sent with it
        opened = {}          # model serial of an open call -> (call id, has deadline, continuation)
        calls = []           # call id -> description
        nxt = {'wire': s0, 'model': s0}

        def note(e, fe, top):
            at[id(e)] = len(flat)
            flat.append(fe)
            group.append(top)

        def ended(m, top):
            cid, _, then = opened.pop(m)
            run_then(then, top, cid)

        def run_then(then, top, owner):
            for e2 in then:
                if e2[0] not in (0, 4, 5):
                    raise ValueError('bad event: only calls, re-sends and loss may happen inside a callback')
                do(e2, top, owner)

        def register(e, kind, tmo, top, wire, raw):
            m = nxt['model']
            nxt['model'] += 1
            if m > MAXS or wire > MAXS:
                raise ValueError('bad event: continuation histories stay below 2^32')
            cid = len(calls)
            calls.append({'kind': kind, 'wire': wire, 'model': m, 'raw': raw})
            latest[wire] = m
            wire_of[m] = wire
            then = ext_of(e).get('then', [])
            if kind == 0:
                opened[m] = (cid, bool(tmo) and tmo[0] != 0, then)
            else:
                run_then(then, top, cid)          # completes at once: the callback runs as soon as it is added

        def do(e, top, owner):
            k = e[0]
            if k == 0:
                kind, tmo, rs = e[1], e[2], e[3]
                raw = bool(ext_of(e).get('raw'))
                if raw and (kind == 2 or rs):
                    raise ValueError('bad event: a raw call is buildable and declares no return signature')
                note(e, [0, kind, tmo, rs], top)
                if kind == 2:
                    cid = len(calls)
                    calls.append({'kind': 2})
                    run_then(ext_of(e).get('then', []), top, cid)
                    return
                wire = nxt['wire']
                nxt['wire'] += 1
                register(e, kind, tmo, top, wire, raw)
            elif k == 5:
                ref = owner if e[1] is None else e[1]
                if ref is None or not 0 <= ref < len(calls) or not calls[ref].get('raw'):
                    raise ValueError('bad event: re-send of something that is not a raw call')
                c = calls[ref]
                if latest[c['wire']] in opened:
                    raise ValueError('bad event: message sent again while its previous call is outstanding')
                pl.reissues += 1
                note(e, [0, c['kind'], e[2], []], top)
                register(e, c['kind'], e[2], top, c['wire'], True)
            elif k in (1, 2):
                m = latest.get(e[1], 0)           # serial 0 is never a call
                note(e, [k, m] + e[2:], top)
                if m in opened:
                    ended(m, top)
            elif k == 3:
                m = latest.get(e[1], 0)
                note(e, [3, m], top)
                if m in opened and opened[m][1]:
                    ended(m, top)
            elif k == 4:
                note(e, [4, e[1]], top)
                opened.clear()                    # ended by the loss: continuations are not run
            else:
                raise ValueError('bad event %r' % (e,))

        for i, e in enumerate(pl.events):
            do(e, i, None)
        pl.flat, pl.group, pl.at, pl.wire_of = flat, group, at, wire_of
    pl.ordinal, pl.timeouts, pl.due = plan_timers(s0, pl.flat)
    return pl


def convention(mret):
    """the documented delivery convention, applied to the reply message a callRemoteMessage call completes with"""
    if mret is None:
        return None
    body, sig = mret.body, mret.signature
    if not body:
        return None
    if len(body) == 1 and not str(sig).startswith('('):
        return body[0]
    return body


def run_impl(im, case, pl=None):
    """-> (steps, fault) ; step = [completions sorted by call id, pending serials, timer serials] per top-level
    event"""
    s0 = case[0]
    if pl is None:
        pl = make_plan(case)
    events = pl.events
    p, clock = im.connect()
    im.message.DBusMessage._nextSerial = s0
    ordinal, timeouts, due = pl.ordinal, pl.timeouts, pl.due
    reasons = {}
    done = []
    ncalls = [0]
    msgs = {}
    ran = set()
    steps = []
    faults = []
    defer = im.defer

    returned = []
    unfired = []
    closed = []

    def handed_back(cid):
        if pl.cb == 1:
            return 'result of the callback of call %d' % cid
        if pl.cb == 2:
            unfired.append(defer.Deferred())
            return unfired[-1]
        return None

    def continuation(cid, then):
        if then and cid not in ran:
            ran.add(cid)
            for e2 in then:
                try:
                    perform(e2, cid)
                except Exception as ex:
                    if isinstance(ex, ValueError) and 'bad event' in str(ex):
                        raise
                    faults.append('exc:' + type(ex).__name__)

    def on_ok(v, cid, then, raw):
        if closed:
            return None
        if raw:
            v = convention(v)
        done.append([cid, [0, [] if v is None else [canon_val(v)]]])
        continuation(cid, then)
        return handed_back(cid)

    def on_err(f, cid, then):
        if closed:
            return None
        lost = False
        if f.check(im.error.RemoteError):
            e = f.value
            vals = getattr(e, 'values', None)
            done.append([cid, [1, canon_val(e.errName), canon_val(e.message),
                               None if vals is None else canon_val(vals)]])
        elif f.check(im.error.TimeOut):
            done.append([cid, [3]])
        else:
            for r, fr in reasons.items():
                if f is fr:
                    done.append([cid, [4, r]])
                    lost = True
                    break
            else:
                done.append([cid, [5]])
        if not lost:
            continuation(cid, then)
        return handed_back(cid)

    def perform(e, owner, i=None):
        if i is None:
            i = pl.at.get(id(e), 0)
        if e[0] == 0 or e[0] == 5:
            x = ext_of(e)
            then = x.get('then', [])
            cid = ncalls[0]
            ncalls[0] += 1
            if e[0] == 5 or x.get('raw'):
                if e[0] == 5:
                    ref = owner if e[1] is None else e[1]
                    m = msgs[ref]
                else:
                    m = im.message.MethodCallMessage('/obj', 'M%d' % (i % 3), interface='org.x.I',
                                                     destination='org.x.Dest', expectReply=e[1] != 1)
                msgs[cid] = m
                if timeouts.get(i) is not None:
                    d = p.callRemoteMessage(m, timeouts[i])
                else:
                    d = p.callRemoteMessage(m)
                returned.append(d)
                d.addCallbacks(on_ok, on_err, callbackArgs=(cid, then, True), errbackArgs=(cid, then))
                return
            kind, rs = e[1], e[3]
            kw = {}
            if rs == [0]:
                kw['returnSignature'] = None
            elif rs:
                kw['returnSignature'] = rs[1]
            if kind == 2:
                kw.update(INVALID_CALLS[i % len(INVALID_CALLS)])
            else:
                kw.update(objectPath='/obj', methodName='M%d' % (i % 3), interface='org.x.I',
                          destination='org.x.Dest')
                if i % 2:
                    kw.update(signature='s', body=['arg'])
                if kind == 1:
                    kw['expectReply'] = False
            if timeouts.get(i) is not None:
                kw['timeout'] = timeouts[i]
            elif e[2]:
                kw['timeout'] = 7      # invalid call with a timeout
            d = p.callRemote(**kw)
            returned.append(d)
            d.addCallbacks(on_ok, on_err, callbackArgs=(cid, then, False), errbackArgs=(cid, then))
        elif e[0] == 1:
            p.dataReceived(im.raw(1, e[1], None, e[2]))
        elif e[0] == 2:
            p.dataReceived(im.raw(2, e[1], e[2], e[3]))
        elif e[0] == 3:
            t = ordinal[i] + 1
            before = len(done)
            clock.advance(t - 0.25 - clock.seconds())
            if len(done) != before:
                faults.append('fired-early')
            clock.advance(t - clock.seconds())
        elif e[0] == 4:
            fr = im.failure.Failure(im.terror.ConnectionDone('lost %d' % e[1]))
            reasons[e[1]] = fr
            p.connectionLost(fr)
        else:
            raise ValueError('bad event %r' % (e,))

    for i, e in enumerate(events):
        before = len(done)
        try:
            perform(e, None, None if pl.nested else i)
        except Exception as ex:     # an exception escaping the library code
            if isinstance(ex, ValueError) and 'bad event' in str(ex):
                raise
            faults.append('exc:' + type(ex).__name__)
        new = sorted(done[before:], key=lambda c: c[0])
        pend = sorted(p._pendingCalls)
        tims = sorted(due.get(dc.getTime(), -1 - j) for j, dc in enumerate(clock.getDelayedCalls()))
        steps.append([new, pend, tims])
    # the history is over and observed: the caller lets go of every Deferred it was given (what it handed back
    # fires with None, every chain ends with None), so that no case depends on the one evaluated before it
    closed.append(1)
    try:
        for d in unfired:
            d.callback(None)
        for d in returned:
            d.addBoth(lambda _: None)
    except Exception:
        pass
    return steps, faults


def regroup(msteps, pl):
    """the model's observations after each flat event -> one per top-level event, serials as on the wire"""
    if not pl.nested:
        return msteps
    out = []
    for fi, st in enumerate(msteps):
        if pl.group[fi] == len(out):
            out.append([list(st[0]), st[1], st[2]])
        else:
            out[-1][0] += st[0]
            out[-1][1], out[-1][2] = st[1], st[2]
    for st in out:
        st[0].sort(key=lambda c: c[0])
        st[1] = sorted(pl.wire_of[m] for m in st[1])
        st[2] = sorted(st[2])
    return out


def same_outcome(impl, model):
    """impl: canonical observation; model: parsed s-expression outcome"""
    if model == [2]:
        return impl[0] == 1                 # any RemoteError
    if impl[0] == 1 and impl[3] is None:
        return False                        # a RemoteError without values where one from a reply is due
    return impl == model


def same_completions(impl, model):
    return len(impl) == len(model) and all(
        a[0] == b[0] and same_outcome(a[1], b[1]) for a, b in zip(impl, model))


def same_steps(impl, model):
    return len(impl) == len(model) and all(
        same_completions(a[0], b[0]) and a[1] == b[1] and a[2] == b[2] for a, b in zip(impl, model))


# --------------------------------------------------------------------------
def evaluate(ctx, cases, res):
    im = Impl()
    cases = list(cases)
    plans = [make_plan(c) for c in cases]
    lines = ['(8 %d %s)' % (c[0], common.dump(pl.flat)) for c, pl in zip(cases, plans)]
    outs = common.run_model(lines)
    dist = {'events': 0, 'calls': {}, 'kinds': {'return': 0, 'error': 0, 'timer': 0, 'lost': 0, 'call': 0},
            'outcomes': {}, 'max_concurrent': 0,
            'callbacks_hand_back': {'none': 0, 'value': 0, 'unfired-deferred': 0},
            'continuations': {'histories': 0, 'events_inside_callbacks': 0, 'messages_sent_again': 0}}
    names = {0: 'value', 1: 'remote-error', 2: 'signature-mismatch', 3: 'timeout', 4: 'lost', 5: 'failed'}
    kn = {0: 'call', 1: 'return', 2: 'error', 3: 'timer', 4: 'lost'}
    saved = im.message.DBusMessage._nextSerial
    try:
        for c, o, pl in zip(cases, outs, plans):
            if o == [-1]:
                raise RuntimeError('model rejected input %r' % (c,))
            msteps, spec, mfault = o
            msteps = regroup(msteps, pl)
            isteps, ifaults = run_impl(im, c, pl)
            ncalls = sum(1 for e in pl.flat if e[0] == 0)
            res.count(c, nontrivial=ncalls > 0 and len(pl.flat) > ncalls)
            dist['events'] += len(pl.flat)
            dist['calls'][ncalls] = dist['calls'].get(ncalls, 0) + 1
            dist['callbacks_hand_back'][['none', 'value', 'unfired-deferred'][pl.cb]] += 1
            if pl.nested:
                dist['continuations']['histories'] += 1
                dist['continuations']['events_inside_callbacks'] += len(pl.flat) - len(pl.events)
                dist['continuations']['messages_sent_again'] += pl.reissues
            for e in pl.flat:
                dist['kinds'][kn[e[0]]] += 1
            for st in isteps:
                dist['max_concurrent'] = max(dist['max_concurrent'], len(st[1]))
                for comp in st[0]:
                    k = names.get(comp[1][0], '?')
                    if comp[1][0] == 1 and comp[1][3] is None:
                        k = 'signature-mismatch'
                    dist['outcomes'][k] = dist['outcomes'].get(k, 0) + 1
            # correspondence: model == implementation, event by event
            if not same_steps(isteps, msteps) or bool(ifaults) != bool(mfault):
                res.disagree(c, [isteps, ifaults], [msteps, mfault])
            # oracle: implementation vs specification
            sc, sopen, sdead, _ = spec
            icomp = [x for st in isteps for x in st[0]]
            if pl.nested:       # per call: what it completed with, how often; serials as on the wire
                icomp = sorted(icomp, key=lambda x: x[0])
                sc = sorted(sc, key=lambda x: x[0])
                sopen = [pl.wire_of[m] for m in sopen]
            if ifaults:
                res.violate(c, 'an exception escaped the library or a timer fired early: %r' % (ifaults,),
                            'exception-or-early-timer')
            elif not same_completions(icomp, sc):
                ids = [x[0] for x in icomp]
                if len(set(ids)) != len(ids):
                    why, sig = 'a call completed more than once', 'completed-twice'
                elif sorted(ids) != sorted(x[0] for x in sc):
                    why, sig = 'the set of completed calls differs from the specification', 'wrong-calls-completed'
                else:
                    why, sig = 'a call completed with an outcome that is not that of its first terminal event', \
                        'wrong-outcome'
                res.violate(c, why + ': implementation %r, specification %r' % (icomp, sc), sig)
            elif isteps and (isteps[-1][1] != sorted(sopen) or isteps[-1][2] != sorted(sdead)):
                res.violate(c, 'after the history _pendingCalls=%r timers=%r but the open calls are %r, with '
                               'deadline %r' % (isteps[-1][1], isteps[-1][2], sopen, sdead), 'leftovers')
    finally:
        im.message.DBusMessage._nextSerial = saved
    for k in dist:
        if isinstance(dist[k], dict):
            for kk, v in dist[k].items():
                res.extra.setdefault('input_distribution', {}).setdefault(k, {})
                res.extra['input_distribution'][k][kk] = res.extra['input_distribution'][k].get(kk, 0) + v
        elif k == 'max_concurrent':
            res.extra.setdefault('input_distribution', {})
            res.extra['input_distribution'][k] = max(res.extra['input_distribution'].get(k, 0), dist[k])
        else:
            res.extra.setdefault('input_distribution', {})
            res.extra['input_distribution'][k] = res.extra['input_distribution'].get(k, 0) + dist[k]
    for c in cases[:2] + cases[len(cases) // 2: len(cases) // 2 + 2] + cases[-1:]:
        res.sample(c)


# --------------------------------------------------------------------------
# generators
def merges(seqs):
    """all interleavings of the given sequences (each keeps its own order)"""
    seqs = [s for s in seqs if s]
    if not seqs:
        yield []
        return
    for i, s in enumerate(seqs):
        rest = seqs[:i] + [s[1:]] + seqs[i + 1:]
        for m in merges(rest):
            yield [s[0]] + m


class Gen:
    def __init__(self, ctx):
        self.rng = ctx.rng
        self.ctx = ctx

    def reply(self):
        return self.rng.choice(REPLIES)

    def retsig(self):
        r = self.rng.random()
        return [] if r < 0.5 else self.rng.choice(RETSIGS)

    def ev(self, sym, serial):
        """R/E/T for the given serial"""
        if sym == 'R':
            return [1, serial, self.reply()]
        if sym == 'E':
            return [2, serial, self.rng.choice(ERRNAMES), self.rng.choice(ERRBODIES)]
        if sym == 'T':
            return [3, serial]
        if sym == 'L':
            return [4, self.rng.randrange(1, 4)]
        raise ValueError(sym)

    def call(self, deadline, kind=0):
        return [0, kind, [self.rng.choice([1, 5, 30])] if deadline else [], self.retsig()]

    # A. one call, every sequence over the alphabet, the call at every position
    def one_call(self, maxlen):
        alpha = ['R', 'E', 'T', 'Ru', 'Eu', 'L']
        for n in range(0, maxlen + 1):
            for seq in itertools.product(alpha, repeat=n):
                for pos in range(n + 1):
                    for deadline in (0, 1):
                        s0 = self.rng.choice([2, 3, 77, 1000])
                        evs = []
                        for s in seq:
                            if s == 'Ru':
                                evs.append(self.ev('R', s0 + 1))
                            elif s == 'Eu':
                                evs.append(self.ev('E', s0 - 1))
                            else:
                                evs.append(self.ev(s, s0))
                        evs.insert(pos, self.call(deadline))
                        yield [s0, evs]

    # B/C. n concurrent calls, each followed by a script over R/E/T, all interleavings
    def concurrent(self, n, maxscript, deadline_configs, with_loss=False):
        scripts = [()]
        for k in range(1, maxscript + 1):
            scripts += list(itertools.product('RET', repeat=k))
        for combo in itertools.product(scripts, repeat=n):
            for dl in deadline_configs:
                s0 = self.rng.choice([2, 5, 100, 4000])
                seqs = []
                for c in range(n):
                    seqs.append([('C', c)] + [(sym, c) for sym in combo[c]])
                for m in merges(seqs):
                    base = []
                    for sym, c in m:
                        if sym == 'C':
                            base.append(self.call(dl[c]))
                        else:
                            base.append(self.ev(sym, s0 + c))
                    if not with_loss:
                        yield [s0, base]
                    else:
                        for pos in range(len(base) + 1):
                            yield [s0, base[:pos] + [self.ev('L', 0)] + base[pos:]]

    # D. value convention and error fields: every declared signature x every reply
    def matrix(self):
        for rs in RETSIGS:
            for rp in REPLIES:
                yield [9, [[0, 0, [], rs], [1, 9, rp]]]
                yield [9, [[0, 0, [4], rs], [1, 9, rp]]]
            for kind in (1, 2):
                yield [9, [[0, kind, [], rs], [1, 9, REPLIES[2]]]]
                yield [9, [[0, kind, [3], rs], [3, 9], [1, 9, REPLIES[2]]]]
        for name in ERRNAMES:
            for eb in ERRBODIES:
                for rs in ([], [1, 's'], [0]):
                    yield [4, [[0, 0, [], rs], [2, 4, name, eb]]]
        # timeout 0 is no deadline
        yield [4, [[0, 0, [0], []], [3, 4], [1, 4, REPLIES[2]]]]

    # E. kinds of call and the 32-bit serial boundary
    def kinds(self):
        for s0 in (6, MAXS - 2, MAXS - 1, MAXS, MAXS + 1):
            for ks in itertools.product((0, 1, 2), repeat=3):
                for dl in ((0, 0, 0), (1, 1, 1)):
                    evs = [self.call(dl[i], ks[i]) for i in range(3)]
                    tail = []
                    for j in range(3):
                        ser = s0 + j
                        if ser <= MAXS:
                            tail.append(self.ev(self.rng.choice('RET'), ser))
                    for t in itertools.permutations(tail):
                        yield [s0, evs + list(t)]
                        yield [s0, evs[:2] + list(t[:1]) + evs[2:] + list(t[1:])]

    # F. what the caller's own callbacks hand back to the rest of their chain (a value, an unfired Deferred):
    #    calls of every kind one after the other, the answers directly after each call or at the end
    def handed_back(self):
        rng = self.rng
        for cb in (1, 2):
            for n in (1, 2, 3):
                for ks in itertools.product((0, 1, 2), repeat=n):
                    for layout in (0, 1):
                        s0 = rng.choice([2, 7, 300])
                        evs, tail, ser = [], [], s0
                        for k in ks:
                            evs.append(self.call(rng.random() < 0.5, k))
                            if k == 0:
                                (evs if layout else tail).append(self.ev(rng.choice('RRE'), ser))
                            if k != 2:
                                ser += 1
                        yield [s0, evs + tail, {'cb': cb}]

    # G. callers that come back into the connection from inside a completion callback
    def then_call(self, deadline, then, kind=0):
        return self.call(deadline, kind) + [{'then': then}]

    def raw_call(self, deadline, then=None, kind=0):
        x = {'raw': 1}
        if then:
            x['then'] = then
        return [0, kind, [self.rng.choice([1, 5, 30])] if deadline else [], [], x]

    def resend(self, deadline, then=None, ref=None):
        return [5, ref, [self.rng.choice([1, 5, 30])] if deadline else [], {'then': then} if then else {}]

    # G1. poll / retry: one MethodCallMessage sent again and again (same serial), each time after the previous call
    #     with it has ended by return / error / expiry - from inside that call's callback, or afterwards
    def resend_chains(self, maxdepth, control_depth):
        rng = self.rng
        links = [(d, t) for d in (0, 1) for t in ('RET' if d else 'RE')]
        for depth in range(1, maxdepth + 1):
            for chain in itertools.product(links, repeat=depth):
                for last in ((0, None), (1, None), (1, 'T'), (0, 'R')):
                    for by in (0, 1):
                        for inside in ((1, 0) if depth <= control_depth else (1,)):
                            s0 = rng.choice([2, 6, 500])
                            evs, w = [], s0
                            if by:
                                evs.append(self.call(1))
                                w = s0 + 1
                            if inside:
                                node = self.resend(last[0])
                                for d, _ in reversed(chain[1:]):
                                    node = self.resend(d, [node])
                                evs.append(self.raw_call(chain[0][0], [node]))
                                for _, t in chain:
                                    evs.append(self.ev(t, w))
                            else:
                                evs.append(self.raw_call(chain[0][0]))
                                for j, (_, t) in enumerate(chain):
                                    evs.append(self.ev(t, w))
                                    nd = chain[j + 1][0] if j + 1 < len(chain) else last[0]
                                    evs.append(self.resend(nd, None, by))
                            if last[1]:
                                evs.append(self.ev(last[1], w))
                            if rng.random() < 0.5:
                                evs.append(self.ev('R', w))
                            if by:
                                evs.append(self.ev(rng.choice('RET'), s0))
                            yield [s0, evs]

    # G2. sequencing: the callback of a call issues further calls of every kind, one of which does the same
    def chained(self):
        rng = self.rng
        for t0 in 'RET':
            for n in (1, 2):
                for inner in itertools.product((0, 1, 2), repeat=n):
                    for deeper in (0, 1):
                        for rev in (0, 1):
                            s0 = rng.choice([3, 40, 900])
                            w = s0 + 1
                            normal, then = [], []
                            for k in inner:
                                if k == 0 and deeper and not normal:
                                    then.append(self.then_call(rng.random() < 0.5, [self.call(rng.random() < 0.5)]))
                                elif k == 1 and deeper and rng.random() < 0.5:
                                    then.append(self.then_call(0, [self.call(0, 1)], 1))
                                    w += 1
                                else:
                                    then.append(self.call(rng.random() < 0.5, k))
                                if k == 0:
                                    normal.append(w)
                                if k != 2:
                                    w += 1
                            evs = [self.then_call(t0 == 'T' or rng.random() < 0.5, then), self.ev(t0, s0)]
                            tail = [self.ev(rng.choice('RRET'), x) for x in normal]
                            if rev:
                                tail.reverse()
                            if deeper and normal:
                                tail.append(self.ev(rng.choice('RE'), w))
                            yield [s0, evs + tail]

    # G3. the connection is lost synchronously from inside a completion callback (in-memory transports)
    def loss_inside(self):
        rng = self.rng
        for n in (1, 2, 3):
            for owner in range(n):
                for t in 'RET':
                    for dl in itertools.product((0, 1), repeat=n):
                        if t == 'T' and not dl[owner]:
                            continue
                        s0 = rng.choice([2, 11, 2000])
                        evs = []
                        for i in range(n):
                            if i == owner:
                                evs.append(self.then_call(dl[i], [self.ev('L', 0)]))
                            else:
                                evs.append(self.call(dl[i]))
                        evs.append(self.ev(t, s0 + owner))
                        for i in range(n):
                            if i != owner:
                                evs.append(self.ev(rng.choice('RET'), s0 + i))
                        yield [s0, evs]

    def with_continuations(self, case):
        """random continuations on the normal calls of a random history; None if that is no legal history"""
        rng = self.rng
        evs = clone(case[1])
        for e in evs:
            if e[0] != 0 or e[1] != 0 or rng.random() < 0.5:
                continue
            then = []
            raw = rng.random() < 0.5
            for _ in range(rng.randrange(1, 3)):
                r = rng.random()
                if raw and r < 0.5:
                    then.append(self.resend(rng.random() < 0.5))
                elif r < 0.93:
                    then.append(self.call(rng.random() < 0.5, rng.choice([0, 0, 1, 2])))
                else:
                    then.append(self.ev('L', 0))
            if raw:
                e[3] = []
                e.append({'raw': 1, 'then': then})
            else:
                e.append({'then': then})
        out = [case[0], evs] + case[2:]
        try:
            make_plan(out)
        except ValueError:
            return None
        return out

    # random histories with up to 8 calls
    def random_history(self):
        rng = self.rng
        c = self.plain_history()
        if rng.random() < 0.3:
            c = c + [{'cb': rng.choice([1, 2])}]
        if rng.random() < 0.25:
            c = self.with_continuations(c) or c
        return c

    def plain_history(self):
        rng = self.rng
        n = rng.randrange(1, 9)
        r = rng.random()
        if r < 0.85:
            s0 = rng.choice([1, 2, 9, 250, 65535, 70000])
        else:
            s0 = MAXS - rng.randrange(0, n + 1)
        serials = list(range(max(0, s0 - 1), min(MAXS, s0 + n + 1) + 1))
        evs = []
        ncalls = 0
        length = rng.randrange(n, 3 * n + 5)
        issued = []
        ser = s0
        for _ in range(length):
            r = rng.random()
            if ncalls < n and (r < 0.35 or not evs):
                k = rng.choice([0, 0, 0, 0, 0, 0, 0, 1, 2])
                evs.append(self.call(rng.random() < 0.5 if rng.random() < 0.9 else 0, k))
                if k == 0 and rng.random() < 0.05:
                    evs[-1][2] = [0]
                ncalls += 1
                if k != 2:
                    if ser <= MAXS:
                        issued.append(ser)
                    ser += 1
            else:
                if issued and rng.random() < 0.8:
                    s = rng.choice(issued)
                else:
                    s = rng.choice(serials)
                if r < 0.97:
                    evs.append(self.ev(rng.choice('RRETT'), s))
                else:
                    evs.append(self.ev('L', 0))
        return [s0, evs]


def gen_cases(ctx):
    g = Gen(ctx)
    quick = ctx.quick
    yield from g.matrix()
    yield from g.one_call(3 if quick else 4)
    yield from g.concurrent(2, 2, list(itertools.product((0, 1), repeat=2)))
    yield from g.concurrent(2, 1, [(1, 1), (0, 1)], with_loss=True)
    if quick:
        yield from g.concurrent(3, 1, [(1, 1, 1), (0, 0, 0), (1, 0, 1)])
    else:
        yield from g.concurrent(3, 1, list(itertools.product((0, 1), repeat=3)))
        yield from g.concurrent(3, 1, [(1, 1, 1)], with_loss=True)
        yield from g.concurrent(4, 1, [(1, 1, 1, 1), (0, 1, 0, 1)])
    yield from g.kinds()
    yield from g.handed_back()
    yield from g.resend_chains(3, 2 if quick else 3)
    yield from g.chained()
    yield from g.loss_inside()
    for _ in range(ctx.n(4000, 60000)):
        yield g.random_history()


def reentrancy_observation():
    """Outside the quantifier of C08 (callbacks here are passive): what happens when an errback issues a new
    call while connectionLost runs.  Recorded in evidence only; never decides the exit status."""
    im = Impl()
    saved = im.message.DBusMessage._nextSerial
    try:
        p, clock = im.connect()
        got = []
        for i in range(3):
            d = p.callRemote('/obj', 'M', interface='org.x.I', destination='org.x.Dest')
            d.addErrback(lambda f, i=i: (got.append(i), p.callRemote('/obj', 'Retry').addErrback(lambda _: None))[0])
        try:
            p.connectionLost(im.failure.Failure(im.terror.ConnectionDone('lost')))
            raised = None
        except Exception as ex:
            raised = '%s: %s' % (type(ex).__name__, ex)
        return {'scenario': '3 pending calls; the errback of each issues a new call; then connectionLost',
                'connectionLost_raised': raised, 'calls_errbacked': got,
                'note': 'user callbacks that call back into the connection are outside the histories C08 '
                        'quantifies over; reported to the integrator, see C09'}
    except Exception as ex:
        return {'error': repr(ex)}
    finally:
        im.message.DBusMessage._nextSerial = saved


def run(ctx, res):
    res.extra['outside_scope_observation_reentrant_errback'] = reentrancy_observation()
    res.rule = ('histories of one connection: [first serial, events]; exhaustive families: (A) one call, every '
                'sequence of length <= %d over {its return, its error reply, its expiry, unsolicited return, '
                'unsolicited error, loss} with the call at every position, with and without deadline; (B) 2 concurrent '
                'calls each followed by every script of <= 2 of {return, error, expiry} (duplicates included), all '
                'interleavings, all 4 deadline configurations, and scripts <= 1 with loss at every position; (C) %s; '
                '(D) every declared return signature x every reply shape, every error name x body shape; (E) '
                'no-reply / unbuildable calls and first serials around 2^32; (F) 1-3 calls of every kind while the '
                'observer callbacks hand a value / an unfired Deferred back to their chain; (G) callers re-entering '
                'the connection from inside a completion callback: one MethodCallMessage sent again <= 3 times after '
                'each end by return / error / expiry (inside the callback and, as control%s, after it), with and '
                'without a bystander call; callbacks issuing <= 2 further calls of every kind, nested once more; loss of the '
                'connection from inside the callback of each of <= 3 calls; all judged on the flattened history; '
                'plus random histories of <= 8 calls (30%% with callbacks handing something back, 25%% with random '
                'continuations). '
                'Values and signatures inside the exhaustive families are drawn from the seeded PRNG. '
                'non-trivial = at least one call and one other event; distinct by hash of the case'
                % (ctx.n(3, 4), ctx.n('3 concurrent calls, scripts <= 1, all interleavings, 3 deadline configurations',
                                      '3 concurrent calls (8 deadline configurations, and loss at every position) and 4 '
                                      'concurrent calls (2 deadline configurations), scripts <= 1, all interleavings'),
                   ctx.n(' for <= 2 re-sends', '')))
    cases = gen_cases(ctx)
    # evaluate in blocks to bound memory
    block = []
    for c in cases:
        block.append(c)
        if len(block) >= 20000:
            evaluate(ctx, block, res)
            block = []
    if block:
        evaluate(ctx, block, res)
    res.exhaustive = True
    res.extra['exhaustive_scope'] = ('all interleavings of returns, error replies, expiries, duplicates and unsolicited '
                                     'replies for up to %d concurrent calls (families A-E of the rule); random beyond'
                                     % ctx.n(3, 4))
