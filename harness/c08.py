"""C08 correspondence: the pending-call bookkeeping of txdbus.client.DBusClientConnection
(callRemote, callRemoteMessage, _onMethodTimeout, methodReturnReceived, errorReceived,
_cbCvtReply, connectionLost) vs Model/Calls.v (model) and Spec/CallSpec.v (oracle).

A case is [serial0, [event, ...]] (encoding in coq/Model/OpsC08.v).  The real class is
driven over a fake transport with a task.Clock as reactor; replies are fed as raw bytes
built with MethodReturnMessage / ErrorMessage(...).rawMessage (the harness plays the
remote peer, so building them must not consume local serials: the process-wide counter
is saved and restored around it)."""
import itertools

from harness import common

ASSUMPTIONS = [
    'user callbacks on the returned Deferreds are passive observers: they record the completion and do not '
    'call back into the connection (a callback that issues a new call from inside connectionLost makes the '
    'loop over _pendingCalls raise "dictionary changed size during iteration"; that reentrancy is outside '
    'the histories quantified over here and is reported separately)',
    'the connection has completed authentication and Hello (busName set) before the history starts; '
    'loss before that point belongs to C09',
    'replies are well-formed messages whose signature and body agree (codec and parser: C01-C03, C05); '
    'the model is given the signature header and the decoded values',
    'a timeout of 0 is read as "no deadline" (the code tests truthiness; the docstring says "if specified")',
    'timer expiry is scheduled by the harness: the k-th expiry event of a history is virtual time k+1 and each '
    'call is given the timeout that makes its deadline fall on its first expiry event (calls whose deadline '
    'never passes get a far one); the clock is first advanced to just before that time to see nothing fires early',
    'events after connection loss are modelled as the code behaves (a call made then is registered and only '
    'its own deadline can end it); Twisted delivers no data after connectionLost, the property does not speak of it',
    'within one event (connection loss) the order of the completions is not compared',
    'the text of the RemoteError raised for a return-signature mismatch is not compared, only its class',
]

MAXS = 2 ** 32 - 1

REPLIES = [
    [[], []], [[''], []], [['i'], [7]], [['s'], ['hi']], [['ii'], [1, 2]], [['(ii)'], [[1, 2]]],
    [['ai'], [[1, 2, 3]]], [['a(ii)'], [[[1, 2], [3, 4]]]], [['(i)s'], [[1], 'x']], [['as'], [[]]],
    [['o'], ['/a/b']], [['(s)'], [['q']]], [['is'], [5, 'five']], [['s'], ['']],
]
RETSIGS = [[], [0], [1, ''], [1, 'i'], [1, 's'], [1, 'ii'], [1, '(ii)'], [1, 'ai'], [1, '('], [1, 'is'],
           [1, '(i)s'], [1, 'a(ii)']]
ERRNAMES = ['org.x.Err', 'a.b', 'org.freedesktop.DBus.Error.UnknownMethod']
ERRBODIES = [
    [[], []], [[''], []], [['s'], ['boom']], [['si'], ['boom', 3]], [['is'], [3, 'boom']],
    [['as'], [['a', 'b']]], [['o'], ['/p']], [['s'], ['']], [['(s)i'], [['in'], 4]], [['ss'], ['m1', 'm2']],
]


# --------------------------------------------------------------------------
# the implementation side
class FakeTransport:
    disconnecting = False

    def __init__(self):
        self.out = []

    def write(self, data):
        self.out.append(data)

    def writeSequence(self, seq):
        self.out.append(b''.join(seq))

    def loseConnection(self):
        self.disconnecting = True


class Impl:
    """Lazily imported handles on the tree under test."""

    def __init__(self):
        from twisted.internet import task
        from twisted.internet import error as terror
        from twisted.python import failure
        import txdbus.client
        import txdbus.protocol
        from txdbus import message, error
        txdbus.protocol._is_linux = False
        self.task, self.terror, self.failure = task, terror, failure
        self.client, self.message, self.error = txdbus.client, message, error
        self.rawcache = {}

    def connect(self):
        clock = self.task.Clock()
        self.client.reactor = clock
        self.message.DBusMessage._nextSerial = 1      # a previous case may have left it beyond 2^32
        f = self.client.DBusClientFactory()
        p = f.buildProtocol(None)
        p.makeConnection(FakeTransport())
        p.dataReceived(b'OK 1234abcd\r\n')
        assert p._authenticated, 'fake handshake failed'
        hello = list(p._pendingCalls)
        assert len(hello) == 1
        p.dataReceived(self.raw(1, hello[0], None, [['s'], [':1.42']]))
        # what Hello leaves behind is not asserted here: it shows up in the observations
        assert p.busName == ':1.42', 'Hello reply was not delivered'
        return p, clock

    def raw(self, kind, serial, name, m):
        key = (kind, serial, name, repr(m))
        r = self.rawcache.get(key)
        if r is None:
            sig = m[0][0] if m[0] else None
            body = m[1] if sig else None
            saved = self.message.DBusMessage._nextSerial
            self.message.DBusMessage._nextSerial = 1      # the peer has its own counter
            try:
                if kind == 1:
                    r = self.message.MethodReturnMessage(serial, signature=sig, body=body).rawMessage
                else:
                    r = self.message.ErrorMessage(name, serial, signature=sig, body=body).rawMessage
            finally:
                self.message.DBusMessage._nextSerial = saved
            if len(self.rawcache) < 200000:
                self.rawcache[key] = r
        return r


def canon_val(v):
    if isinstance(v, bool):
        return int(v)
    if isinstance(v, int):
        return v
    if isinstance(v, str):
        return v.encode('latin-1')
    if isinstance(v, (list, tuple)):
        return [canon_val(x) for x in v]
    return ['?', repr(v)]


def plan_timers(s0, events):
    """virtual time of each expiry event, the timeout to give each call, and time -> serial"""
    timer_idx = [i for i, e in enumerate(events) if e[0] == 3]
    ordinal = {i: k for k, i in enumerate(timer_idx)}
    timeouts = {}
    due = {}
    ser = s0
    far = 0
    for i, e in enumerate(events):
        if e[0] != 0:
            continue
        kind, tmo = e[1], e[2]
        if kind == 2:
            continue
        serial = ser
        ser += 1
        if not tmo:
            timeouts[i] = None
        elif tmo[0] == 0:
            timeouts[i] = 0
        else:
            now = sum(1 for j in timer_idx if j < i)
            first = next((j for j in timer_idx if j > i and events[j][1] == serial), None)
            if first is None:
                far += 1
                t = 1000 + far
            else:
                t = ordinal[first] + 1
            timeouts[i] = t - now
            if kind == 0 and serial <= MAXS:
                due[float(t)] = serial
    return ordinal, timeouts, due


INVALID_CALLS = [
    dict(objectPath='/a', methodName='bad name'),
    dict(objectPath='/org/freedesktop/DBus/Local', methodName='M'),
    dict(objectPath='/a', methodName='M', signature='i', body=['not an int']),
    dict(objectPath='/a', methodName='M', interface='no-dots'),
]


def run_impl(im, case):
    """-> (steps, fault) ; step = [completions sorted by call id, pending serials, timer serials]"""
    s0, events = case
    p, clock = im.connect()
    im.message.DBusMessage._nextSerial = s0
    ordinal, timeouts, due = plan_timers(s0, events)
    reasons = {}
    done = []
    ncalls = 0
    steps = []
    faults = []

    def on_ok(v, cid):
        done.append([cid, [0, [] if v is None else [canon_val(v)]]])

    def on_err(f, cid):
        if f.check(im.error.RemoteError):
            e = f.value
            vals = getattr(e, 'values', None)
            done.append([cid, [1, canon_val(e.errName), canon_val(e.message),
                               None if vals is None else canon_val(vals)]])
        elif f.check(im.error.TimeOut):
            done.append([cid, [3]])
        else:
            for r, fr in reasons.items():
                if f is fr:
                    done.append([cid, [4, r]])
                    break
            else:
                done.append([cid, [5]])

    for i, e in enumerate(events):
        before = len(done)
        try:
            if e[0] == 0:
                kind, rs = e[1], e[3]
                kw = {}
                if rs == [0]:
                    kw['returnSignature'] = None
                elif rs:
                    kw['returnSignature'] = rs[1]
                if kind == 2:
                    kw.update(INVALID_CALLS[i % len(INVALID_CALLS)])
                else:
                    kw.update(objectPath='/obj', methodName='M%d' % (i % 3), interface='org.x.I',
                              destination='org.x.Dest')
                    if i % 2:
                        kw.update(signature='s', body=['arg'])
                    if kind == 1:
                        kw['expectReply'] = False
                if timeouts.get(i) is not None:
                    kw['timeout'] = timeouts[i]
                elif e[2]:
                    kw['timeout'] = 7      # invalid call with a timeout
                d = p.callRemote(**kw)
                cid = ncalls
                ncalls += 1
                d.addCallbacks(on_ok, on_err, callbackArgs=(cid,), errbackArgs=(cid,))
            elif e[0] == 1:
                p.dataReceived(im.raw(1, e[1], None, e[2]))
            elif e[0] == 2:
                p.dataReceived(im.raw(2, e[1], e[2], e[3]))
            elif e[0] == 3:
                t = ordinal[i] + 1
                clock.advance(t - 0.25 - clock.seconds())
                if len(done) != before:
                    faults.append('fired-early')
                clock.advance(t - clock.seconds())
            elif e[0] == 4:
                fr = im.failure.Failure(im.terror.ConnectionDone('lost %d' % e[1]))
                reasons[e[1]] = fr
                p.connectionLost(fr)
            else:
                raise ValueError('bad event %r' % (e,))
        except Exception as ex:     # an exception escaping the library code
            if isinstance(ex, ValueError) and 'bad event' in str(ex):
                raise
            faults.append('exc:' + type(ex).__name__)
        new = sorted(done[before:], key=lambda c: c[0])
        pend = sorted(p._pendingCalls)
        tims = sorted(due.get(dc.getTime(), -1 - j) for j, dc in enumerate(clock.getDelayedCalls()))
        steps.append([new, pend, tims])
    return steps, faults


def same_outcome(impl, model):
    """impl: canonical observation; model: parsed s-expression outcome"""
    if model == [2]:
        return impl[0] == 1                 # any RemoteError
    if impl[0] == 1 and impl[3] is None:
        return False                        # a RemoteError without values where one from a reply is due
    return impl == model


def same_completions(impl, model):
    return len(impl) == len(model) and all(
        a[0] == b[0] and same_outcome(a[1], b[1]) for a, b in zip(impl, model))


def same_steps(impl, model):
    return len(impl) == len(model) and all(
        same_completions(a[0], b[0]) and a[1] == b[1] and a[2] == b[2] for a, b in zip(impl, model))


# --------------------------------------------------------------------------
def evaluate(ctx, cases, res):
    im = Impl()
    cases = list(cases)
    lines = ['(8 %d %s)' % (c[0], common.dump(c[1])) for c in cases]
    outs = common.run_model(lines)
    dist = {'events': 0, 'calls': {}, 'kinds': {'return': 0, 'error': 0, 'timer': 0, 'lost': 0, 'call': 0},
            'outcomes': {}, 'max_concurrent': 0}
    names = {0: 'value', 1: 'remote-error', 2: 'signature-mismatch', 3: 'timeout', 4: 'lost', 5: 'failed'}
    kn = {0: 'call', 1: 'return', 2: 'error', 3: 'timer', 4: 'lost'}
    saved = im.message.DBusMessage._nextSerial
    try:
        for c, o in zip(cases, outs):
            if o == [-1]:
                raise RuntimeError('model rejected input %r' % (c,))
            msteps, spec, mfault = o
            isteps, ifaults = run_impl(im, c)
            ncalls = sum(1 for e in c[1] if e[0] == 0)
            res.count(c, nontrivial=ncalls > 0 and len(c[1]) > ncalls)
            dist['events'] += len(c[1])
            dist['calls'][ncalls] = dist['calls'].get(ncalls, 0) + 1
            for e in c[1]:
                dist['kinds'][kn[e[0]]] += 1
            for st in isteps:
                dist['max_concurrent'] = max(dist['max_concurrent'], len(st[1]))
                for comp in st[0]:
                    k = names.get(comp[1][0], '?')
                    if comp[1][0] == 1 and comp[1][3] is None:
                        k = 'signature-mismatch'
                    dist['outcomes'][k] = dist['outcomes'].get(k, 0) + 1
            # correspondence: model == implementation, event by event
            if not same_steps(isteps, msteps) or bool(ifaults) != bool(mfault):
                res.disagree(c, [isteps, ifaults], [msteps, mfault])
            # oracle: implementation vs specification
            sc, sopen, sdead, _ = spec
            icomp = [x for st in isteps for x in st[0]]
            if ifaults:
                res.violate(c, 'an exception escaped the library or a timer fired early: %r' % (ifaults,),
                            'exception-or-early-timer')
            elif not same_completions(icomp, sc):
                ids = [x[0] for x in icomp]
                if len(set(ids)) != len(ids):
                    why, sig = 'a call completed more than once', 'completed-twice'
                elif sorted(ids) != sorted(x[0] for x in sc):
                    why, sig = 'the set of completed calls differs from the specification', 'wrong-calls-completed'
                else:
                    why, sig = 'a call completed with an outcome that is not that of its first terminal event', \
                        'wrong-outcome'
                res.violate(c, why + ': implementation %r, specification %r' % (icomp, sc), sig)
            elif isteps and (isteps[-1][1] != sorted(sopen) or isteps[-1][2] != sorted(sdead)):
                res.violate(c, 'after the history _pendingCalls=%r timers=%r but the open calls are %r, with '
                               'deadline %r' % (isteps[-1][1], isteps[-1][2], sopen, sdead), 'leftovers')
    finally:
        im.message.DBusMessage._nextSerial = saved
    for k in dist:
        if isinstance(dist[k], dict):
            for kk, v in dist[k].items():
                res.extra.setdefault('input_distribution', {}).setdefault(k, {})
                res.extra['input_distribution'][k][kk] = res.extra['input_distribution'][k].get(kk, 0) + v
        elif k == 'max_concurrent':
            res.extra.setdefault('input_distribution', {})
            res.extra['input_distribution'][k] = max(res.extra['input_distribution'].get(k, 0), dist[k])
        else:
            res.extra.setdefault('input_distribution', {})
            res.extra['input_distribution'][k] = res.extra['input_distribution'].get(k, 0) + dist[k]
    for c in cases[:2] + cases[len(cases) // 2: len(cases) // 2 + 2] + cases[-1:]:
        res.sample(c)


# --------------------------------------------------------------------------
# generators
def merges(seqs):
    """all interleavings of the given sequences (each keeps its own order)"""
    seqs = [s for s in seqs if s]
    if not seqs:
        yield []
        return
    for i, s in enumerate(seqs):
        rest = seqs[:i] + [s[1:]] + seqs[i + 1:]
        for m in merges(rest):
            yield [s[0]] + m


class Gen:
    def __init__(self, ctx):
        self.rng = ctx.rng
        self.ctx = ctx

    def reply(self):
        return self.rng.choice(REPLIES)

    def retsig(self):
        r = self.rng.random()
        return [] if r < 0.5 else self.rng.choice(RETSIGS)

    def ev(self, sym, serial):
        """R/E/T for the given serial"""
        if sym == 'R':
            return [1, serial, self.reply()]
        if sym == 'E':
            return [2, serial, self.rng.choice(ERRNAMES), self.rng.choice(ERRBODIES)]
        if sym == 'T':
            return [3, serial]
        if sym == 'L':
            return [4, self.rng.randrange(1, 4)]
        raise ValueError(sym)

    def call(self, deadline, kind=0):
        return [0, kind, [self.rng.choice([1, 5, 30])] if deadline else [], self.retsig()]

    # A. one call, every sequence over the alphabet, the call at every position
    def one_call(self, maxlen):
        alpha = ['R', 'E', 'T', 'Ru', 'Eu', 'L']
        for n in range(0, maxlen + 1):
            for seq in itertools.product(alpha, repeat=n):
                for pos in range(n + 1):
                    for deadline in (0, 1):
                        s0 = self.rng.choice([2, 3, 77, 1000])
                        evs = []
                        for s in seq:
                            if s == 'Ru':
                                evs.append(self.ev('R', s0 + 1))
                            elif s == 'Eu':
                                evs.append(self.ev('E', s0 - 1))
                            else:
                                evs.append(self.ev(s, s0))
                        evs.insert(pos, self.call(deadline))
                        yield [s0, evs]

    # B/C. n concurrent calls, each followed by a script over R/E/T, all interleavings
    def concurrent(self, n, maxscript, deadline_configs, with_loss=False):
        scripts = [()]
        for k in range(1, maxscript + 1):
            scripts += list(itertools.product('RET', repeat=k))
        for combo in itertools.product(scripts, repeat=n):
            for dl in deadline_configs:
                s0 = self.rng.choice([2, 5, 100, 4000])
                seqs = []
                for c in range(n):
                    seqs.append([('C', c)] + [(sym, c) for sym in combo[c]])
                for m in merges(seqs):
                    base = []
                    for sym, c in m:
                        if sym == 'C':
                            base.append(self.call(dl[c]))
                        else:
                            base.append(self.ev(sym, s0 + c))
                    if not with_loss:
                        yield [s0, base]
                    else:
                        for pos in range(len(base) + 1):
                            yield [s0, base[:pos] + [self.ev('L', 0)] + base[pos:]]

    # D. value convention and error fields: every declared signature x every reply
    def matrix(self):
        for rs in RETSIGS:
            for rp in REPLIES:
                yield [9, [[0, 0, [], rs], [1, 9, rp]]]
                yield [9, [[0, 0, [4], rs], [1, 9, rp]]]
            for kind in (1, 2):
                yield [9, [[0, kind, [], rs], [1, 9, REPLIES[2]]]]
                yield [9, [[0, kind, [3], rs], [3, 9], [1, 9, REPLIES[2]]]]
        for name in ERRNAMES:
            for eb in ERRBODIES:
                for rs in ([], [1, 's'], [0]):
                    yield [4, [[0, 0, [], rs], [2, 4, name, eb]]]
        # timeout 0 is no deadline
        yield [4, [[0, 0, [0], []], [3, 4], [1, 4, REPLIES[2]]]]

    # E. kinds of call and the 32-bit serial boundary
    def kinds(self):
        for s0 in (6, MAXS - 2, MAXS - 1, MAXS, MAXS + 1):
            for ks in itertools.product((0, 1, 2), repeat=3):
                for dl in ((0, 0, 0), (1, 1, 1)):
                    evs = [self.call(dl[i], ks[i]) for i in range(3)]
                    tail = []
                    for j in range(3):
                        ser = s0 + j
                        if ser <= MAXS:
                            tail.append(self.ev(self.rng.choice('RET'), ser))
                    for t in itertools.permutations(tail):
                        yield [s0, evs + list(t)]
                        yield [s0, evs[:2] + list(t[:1]) + evs[2:] + list(t[1:])]

    # random histories with up to 8 calls
    def random_history(self):
        rng = self.rng
        n = rng.randrange(1, 9)
        r = rng.random()
        if r < 0.85:
            s0 = rng.choice([1, 2, 9, 250, 65535, 70000])
        else:
            s0 = MAXS - rng.randrange(0, n + 1)
        serials = list(range(max(0, s0 - 1), min(MAXS, s0 + n + 1) + 1))
        evs = []
        ncalls = 0
        length = rng.randrange(n, 3 * n + 5)
        issued = []
        ser = s0
        for _ in range(length):
            r = rng.random()
            if ncalls < n and (r < 0.35 or not evs):
                k = rng.choice([0, 0, 0, 0, 0, 0, 0, 1, 2])
                evs.append(self.call(rng.random() < 0.5 if rng.random() < 0.9 else 0, k))
                if k == 0 and rng.random() < 0.05:
                    evs[-1][2] = [0]
                ncalls += 1
                if k != 2:
                    if ser <= MAXS:
                        issued.append(ser)
                    ser += 1
            else:
                if issued and rng.random() < 0.8:
                    s = rng.choice(issued)
                else:
                    s = rng.choice(serials)
                if r < 0.97:
                    evs.append(self.ev(rng.choice('RRETT'), s))
                else:
                    evs.append(self.ev('L', 0))
        return [s0, evs]


def gen_cases(ctx):
    g = Gen(ctx)
    quick = ctx.quick
    yield from g.matrix()
    yield from g.one_call(3 if quick else 4)
    yield from g.concurrent(2, 2, list(itertools.product((0, 1), repeat=2)))
    yield from g.concurrent(2, 1, [(1, 1), (0, 1)], with_loss=True)
    if quick:
        yield from g.concurrent(3, 1, [(1, 1, 1), (0, 0, 0), (1, 0, 1)])
    else:
        yield from g.concurrent(3, 1, list(itertools.product((0, 1), repeat=3)))
        yield from g.concurrent(3, 1, [(1, 1, 1)], with_loss=True)
        yield from g.concurrent(4, 1, [(1, 1, 1, 1), (0, 1, 0, 1)])
    yield from g.kinds()
    for _ in range(ctx.n(4000, 60000)):
        yield g.random_history()


def reentrancy_observation():
    """Outside the quantifier of C08 (callbacks here are passive): what happens when an errback issues a new
    call while connectionLost runs.  Recorded in evidence only; never decides the exit status."""
    im = Impl()
    saved = im.message.DBusMessage._nextSerial
    try:
        p, clock = im.connect()
        got = []
        for i in range(3):
            d = p.callRemote('/obj', 'M', interface='org.x.I', destination='org.x.Dest')
            d.addErrback(lambda f, i=i: (got.append(i), p.callRemote('/obj', 'Retry').addErrback(lambda _: None))[0])
        try:
            p.connectionLost(im.failure.Failure(im.terror.ConnectionDone('lost')))
            raised = None
        except Exception as ex:
            raised = '%s: %s' % (type(ex).__name__, ex)
        return {'scenario': '3 pending calls; the errback of each issues a new call; then connectionLost',
                'connectionLost_raised': raised, 'calls_errbacked': got,
                'note': 'user callbacks that call back into the connection are outside the histories C08 '
                        'quantifies over; reported to the integrator, see C09'}
    except Exception as ex:
        return {'error': repr(ex)}
    finally:
        im.message.DBusMessage._nextSerial = saved


def run(ctx, res):
    res.extra['outside_scope_observation_reentrant_errback'] = reentrancy_observation()
    res.rule = ('histories of one connection: [first serial, events]; exhaustive families: (A) one call, every '
                'sequence of length <= %d over {its return, its error reply, its expiry, unsolicited return, '
                'unsolicited error, loss} with the call at every position, with and without deadline; (B) 2 concurrent '
                'calls each followed by every script of <= 2 of {return, error, expiry} (duplicates included), all '
                'interleavings, all 4 deadline configurations, and scripts <= 1 with loss at every position; (C) %s; '
                '(D) every declared return signature x every reply shape, every error name x body shape; (E) '
                'no-reply / unbuildable calls and first serials around 2^32; plus random histories of <= 8 calls. '
                'Values and signatures inside the exhaustive families are drawn from the seeded PRNG. '
                'non-trivial = at least one call and one other event; distinct by hash of the case'
                % (ctx.n(3, 4), ctx.n('3 concurrent calls, scripts <= 1, all interleavings, 3 deadline configurations',
                                      '3 concurrent calls (8 deadline configurations, and loss at every position) and 4 '
                                      'concurrent calls (2 deadline configurations), scripts <= 1, all interleavings')))
    cases = gen_cases(ctx)
    # evaluate in blocks to bound memory
    block = []
    for c in cases:
        block.append(c)
        if len(block) >= 20000:
            evaluate(ctx, block, res)
            block = []
    if block:
        evaluate(ctx, block, res)
    res.exhaustive = True
    res.extra['exhaustive_scope'] = ('all interleavings of returns, error replies, expiries, duplicates and unsolicited '
                                     'replies for up to %d concurrent calls (families A-E of the rule); random beyond'
                                     % ctx.n(3, 4))
