"""C04 correspondence: BasicDBusProtocol.dataReceived (txdbus/protocol.py) driven over a fake
transport with a scripted authenticator, vs Model/Framing.v (model) and Spec/FramingSpec.v
(oracle: the semantics of the WHOLE stream, which knows nothing about reads).

Case formats (JSON-able lists; encoding of the model side in coq/Model/OpsC04.v):
  ['run',    client, maxl, auth, [chunk...], sent]           one partition
  ['cuts',   client, maxl, auth, stream, [[cut...]...], sent] many partitions of one stream
  ['raw',    client, maxl, auth, [chunk...]]                 reads delivered even after loseConnection
                                                             (model <-> implementation only)
  ['parsed', client, auth, [chunk...], [summary...]]         default rawDBusMessageReceived; the typed
                                                             callbacks must see exactly the sent messages
client: 1 = client side, 0 = server side (expects the NUL byte first).
maxl:   None = the tree's MAX_AUTH_LENGTH, or a small value set on the instance.
auth:   [0, [[line, res]...]] scripted by content | [1, [res...]] scripted by position;
        res 0 continue, 1 authenticated, 2 raises DBusAuthenticationFailed, 3 raises something else.
sent:   None or [[line...], [raw message...]]: what the peer sent, when the stream is a complete
        handshake followed by whole messages (then delivered must equal sent).
Observation: ([event...], residual) with event [0,line] handleAuthMessage | [1] connectionAuthenticated |
[2,raw] rawDBusMessageReceived | [3] first loseConnection | [4] exception escaped dataReceived;
residual = bytes left in _buffer, None once closing/dropped."""
import struct

from harness import common
from harness import c04_msgs as M

ASSUMPTIONS = [
    'the reactor never calls dataReceived with an empty string; what is needed of that: the very first read of a '
    'server-side connection is not empty (data[0] would raise IndexError). Empty reads are generated everywhere else',
    'after transport.loseConnection() or an exception escaping dataReceived no further read is delivered '
    '(Twisted stops reading / drops the connection); the "raw" family drops this assumption for model<->code only',
    'the authenticator is an arbitrary deterministic object behind IDBusAuthenticator, observed through '
    'handleAuthMessage/authenticationSucceeded; what it writes to the transport is not compared',
    'rawDBusMessageReceived / connectionAuthenticated / the typed callbacks are passive recorders: they neither '
    'raise nor close the transport (a callback closing the connection while later messages of the same read are '
    'still delivered is outside the statement)',
    'a second loseConnection() on a closing transport is not an event (no-op in Twisted)',
    'which exception escapes is not compared, only that one did; RecursionError is reported as D02',
    'messages are told apart by their first 16 bytes only (framing); their inner well-formedness is C03/C05',
    'file descriptors (fileDescriptorReceived) belong to C20',
]

SIG_D02 = 'D02-recursion-per-message'
SIG_D03 = 'D03-handshake-tail-not-binary'
SIG_D32 = 'D32-auth-limit-split-delimiter'
SIG_GEN = 'framing-differs-from-stream-semantics'
SIG_SENT = 'delivered-differs-from-sent'
SIG_PARSED = 'typed-callbacks-differ-from-sent'


# --------------------------------------------------------------------------
# the implementation side
class Impl:
    def __init__(self):
        from zope.interface import implementer
        import txdbus.protocol as protocol
        from txdbus import error
        protocol._is_linux = False
        self.protocol = protocol
        self.maxl = protocol.BasicDBusProtocol.MAX_AUTH_LENGTH

        class ScriptCrash(Exception):
            pass

        class FakeTransport:
            disconnecting = False

            def __init__(self, log):
                self.log = log

            def write(self, data):
                pass

            def writeSequence(self, seq):
                pass

            def loseConnection(self):
                if not self.disconnecting:
                    self.log.append([3])
                self.disconnecting = True

        @implementer(protocol.IDBusAuthenticator)
        class ScriptAuth:
            def __init__(self, auth, log):
                self.kind = auth[0]
                if self.kind == 0:
                    self.rules = {}
                    for l, r in auth[1]:
                        self.rules.setdefault(bytes(l), r)
                else:
                    self.script = list(auth[1])
                self.log = log
                self.ok = False

            def beginAuthentication(self, proto):
                pass

            def handleAuthMessage(self, line):
                self.log.append([0, bytes(line)])
                if self.kind == 0:
                    r = self.rules.get(bytes(line), 0)
                else:
                    r = self.script.pop(0) if self.script else 0
                if r == 1:
                    self.ok = True
                elif r == 2:
                    raise error.DBusAuthenticationFailed('scripted')
                elif r == 3:
                    raise ScriptCrash('scripted')

            def authenticationSucceeded(self):
                return self.ok

            def getGUID(self):
                return 'guid'

        class Factory:
            class bus:
                uuid = 'uuid'

        class RawProto(protocol.BasicDBusProtocol):
            def connectionAuthenticated(self):
                self.log.append([1])

            def rawDBusMessageReceived(self, raw):
                self.log.append([2, bytes(raw)])

        def summ(m):
            attrs = []
            for k in sorted(M.FIELD_NAMES.values()):
                v = getattr(m, k, None)
                if v is not None:
                    attrs.append([k, M.canon(v)])
            return [m._messageType, m.serial, attrs,
                    M.canon(m.body) if m.signature else None,
                    bytes(m.rawHeader) + bytes(m.rawPadding) + bytes(m.rawBody)]

        class ParsedProto(protocol.BasicDBusProtocol):
            def connectionAuthenticated(self):
                self.log.append([1])

            def methodCallReceived(self, m):
                self.log.append([2, 1, summ(m)])

            def methodReturnReceived(self, m):
                self.log.append([2, 2, summ(m)])

            def errorReceived(self, m):
                self.log.append([2, 3, summ(m)])

            def signalReceived(self, m):
                self.log.append([2, 4, summ(m)])

        self.ScriptAuth, self.FakeTransport, self.Factory = ScriptAuth, FakeTransport, Factory
        self.RawProto, self.ParsedProto = RawProto, ParsedProto

    def run(self, client, maxl, auth, chunks, raw_mode=False, parsed=False):
        log = []
        p = (self.ParsedProto if parsed else self.RawProto)()
        p.log = log
        p._client = bool(client)
        p.factory = self.Factory
        if maxl is not None:
            p.MAX_AUTH_LENGTH = maxl
        a = self.ScriptAuth(auth, log)
        p.authenticator = lambda *args: a
        t = self.FakeTransport(log)
        p.makeConnection(t)
        exc = None
        for c in chunks:
            if t.disconnecting and not raw_mode:
                break
            try:
                p.dataReceived(c)
            except Exception as e:      # noqa: the reactor logs it and drops the connection
                exc = type(e).__name__
                log.append([4])
                break
        residual = None if (t.disconnecting or exc) else bytes(p._buffer)
        return log, residual, exc


def evaluate_limit(ctx, cases, res):
    """kind 'limit': ONE message whose total length is exactly the protocol limit 2^27 (or just below), behind a one-line
    handshake, cut into a few reads - far too long for the extracted model; judged by the property's own oracle: the
    receiver delivers exactly the message that was sent, once, byte-identical.  The case is symbolic (total, byte order,
    cuts); the bytes are built on the fly."""
    import struct
    from harness import c04_msgs as M
    im = Impl()
    for c in cases:
        _, total, le, cuts = c
        hdr = bytearray(M.build(le, 1, 0, 5, [(1, 'o', '/a'), (3, 's', 'M'), (8, 'g', 'ay')], '', []))
        n = total - len(hdr) - 4
        struct.pack_into('<I' if le else '>I', hdr, 4, n + 4)
        raw = bytes(hdr) + struct.pack('<I' if le else '>I', n) + b'\x07' * n
        assert len(raw) == total
        stream = b'GO\r\n' + raw
        reads = chunks_of(stream, sorted(set(min(len(stream) - 1, max(1, x)) for x in cuts)))
        log, residual, exc = im.run(True, None, [0, [[b'GO', 1]]], reads)
        got = [e for e in log if e[0] == 2]
        res.count(['limit', total, le, cuts], nontrivial=True)
        ok = exc is None and len(got) == 1 and len(got[0][1]) == total and bytes(got[0][1]) == raw and residual == b''
        if not ok:
            res.violate(['limit', total, le, cuts],
                        'a message of %d bytes (limit 2^27 = 134217728) sent behind the handshake in %d reads: delivered %d message(s)%s%s'
                        % (total, len(reads), len(got), ', exception %s' % exc if exc else '',
                           ', connection closed' if residual is None and not exc else ''), 'limit-size-message-not-delivered')
        del raw, stream, reads, log, got


def chunks_of(stream, cuts):
    out = []
    pos = 0
    for c in cuts:
        out.append(stream[pos:c])
        pos = c
    out.append(stream[pos:])
    return out


def model_result(o):
    evs, resid = o
    return [list(e) for e in evs], (resid[0] if resid else None)


def big(b):
    """long byte strings go to the model in pieces (its reader is slow on very long atoms)"""
    b = bytes(b)
    if len(b) <= 1024:
        return common.dump(b)
    return '(' + ' '.join(common.dump(b[i:i + 512]) for i in range(0, len(b), 512)) + ')'


def bigs(chunks):
    return '(' + ' '.join(big(x) for x in chunks) + ')'


def auth_dump(auth):
    return [auth[0], [[bytes(l), r] for l, r in auth[1]] if auth[0] == 0 else list(auth[1])]


def classify(exc, pairs, spec):
    """pairs: (observation, what the pre-repair model gives for the same reads) for the partition and
    for the same bytes in one read; the signature names the known defect that explains the deviation"""
    if exc == 'RecursionError':
        return SIG_D02
    for obs, legacy in pairs:
        if obs is not None and legacy is not None and obs == legacy and legacy != spec:
            k = 0
            while k < len(obs[0]) and k < len(spec[0]) and obs[0][k] == spec[0][k]:
                k += 1
            return SIG_D03 if [1] in spec[0][:k] else SIG_D32
    return SIG_GEN


def describe(impl, spec):
    ie, se = impl[0], spec[0]
    k = 0
    while k < len(ie) and k < len(se) and ie[k] == se[k]:
        k += 1
    names = {0: 'line', 1: 'authenticated', 2: 'message', 3: 'loseConnection', 4: 'exception'}

    def show(evs):
        if k >= len(evs):
            return 'nothing more'
        e = evs[k]
        return names.get(e[0], '?') + (' %r' % (e[1][:24],) if len(e) > 1 else '')
    if k == len(ie) == len(se):
        return 'same callbacks but leftover buffer %r instead of %r' % (impl[1] and impl[1][:24], spec[1] and spec[1][:24])
    return ('callback #%d is %s but the stream semantics gives %s (%d of %d messages delivered)'
            % (k, show(ie), show(se), sum(1 for e in ie if e[0] == 2), sum(1 for e in se if e[0] == 2)))


# --------------------------------------------------------------------------
def raise_stack_limit():
    """the extracted model recurses once per byte of a read (non-tail list functions); reads of several
    hundred KiB need more than the default 8 MiB stack.  Child processes inherit the limit."""
    try:
        import resource
        soft, hard = resource.getrlimit(resource.RLIMIT_STACK)
        want = 1 << 30
        if hard != resource.RLIM_INFINITY:
            want = min(want, hard)
        if soft != resource.RLIM_INFINITY and soft < want:
            resource.setrlimit(resource.RLIMIT_STACK, (want, hard))
    except Exception:
        pass


def evaluate(ctx, cases, res):
    raise_stack_limit()
    cases = [c for c in cases]
    lim = [c for c in cases if c and c[0] == 'limit']
    if lim:
        evaluate_limit(ctx, lim, res)
    cases = [c for c in cases if not (c and c[0] == 'limit')]
    if not cases:
        return
    im = Impl()
    dist = res.extra.setdefault('input_distribution', {
        'partitions': 0, 'client_side': 0, 'server_side': 0, 'with_messages': 0, 'big_endian_msgs': 0,
        'little_endian_msgs': 0, 'crlf_inside_message_bytes': 0, 'handshake_and_message_in_one_read': 0,
        'closed_or_crashed': 0, 'max_messages_in_one_read': 0, 'max_chunks': 0, 'empty_reads': 0,
        'parsed_variant': 0, 'raw_mode': 0})
    lines = []
    for c in cases:
        kind = c[0]
        if kind == 'run':
            _, client, maxl, auth, chunks, sent = c
            ml = im.maxl if maxl is None else maxl
            lines.append('(4 1 %d %d 990 %s %s)' % (client, ml, common.dump(auth_dump(auth)),
                                                    bigs(chunks)))
        elif kind == 'cuts':
            _, client, maxl, auth, stream, cutss, sent = c
            ml = im.maxl if maxl is None else maxl
            lines.append('(4 2 %d %d %s %s %s)' % (client, ml, common.dump(auth_dump(auth)),
                                                   big(stream), common.dump(cutss)))
        elif kind == 'raw':
            _, client, maxl, auth, chunks = c
            ml = im.maxl if maxl is None else maxl
            lines.append('(4 3 %d %d %s %s)' % (client, ml, common.dump(auth_dump(auth)),
                                                bigs(chunks)))
        elif kind == 'parsed':
            _, client, auth, chunks, summaries = c
            lines.append('(4 1 %d %d 990 %s %s)' % (client, im.maxl, common.dump(auth_dump(auth)),
                                                    bigs(chunks)))
        else:
            raise RuntimeError('unknown case kind %r' % (kind,))
    outs = common.run_model(lines, jobs=min(12, max(1, len(lines) // 4)))
    pending = []     # violating single partitions of 'cuts' cases, classified in a second model pass
    persig = {}

    def violate(case, why, sig):
        # keep room for every distinct signature (Result keeps the first 200 violations only)
        persig[sig] = persig.get(sig, 0) + 1
        if persig[sig] <= 30:
            res.violate(case, why, sig)
        else:
            res.extra['violations_not_listed'] = res.extra.get('violations_not_listed', 0) + 1

    def note(events, chunks, client):
        dist['partitions'] += 1
        dist['client_side' if client else 'server_side'] += 1
        nm = 0
        for e in events:
            if e[0] == 2:
                nm += 1
                raw = e[1] if isinstance(e[1], bytes) else b''
                if raw[:1] == b'l':
                    dist['little_endian_msgs'] += 1
                elif raw:
                    dist['big_endian_msgs'] += 1
                if b'\r\n' in raw:
                    dist['crlf_inside_message_bytes'] += 1
        if nm:
            dist['with_messages'] += 1
        if any(e[0] in (3, 4) for e in events):
            dist['closed_or_crashed'] += 1
        dist['max_chunks'] = max(dist['max_chunks'], len(chunks))
        dist['empty_reads'] += sum(1 for x in chunks if not x)

    def deliveries(obs):
        """what the property speaks of: authentication completed, messages delivered (in order, bytes)"""
        return [e for e in obs[0] if e[0] in (1, 2)]

    def check_one(case_single, client, maxl, auth, chunks, sent, model, spec, legacy, ref):
        impl_e, impl_r, exc = im.run(client, maxl, auth, chunks)
        impl = (impl_e, impl_r)
        note(impl_e, chunks, client)
        nmsg = sum(1 for e in spec[0] if e[0] == 2)
        res.count((client, maxl, repr(auth), tuple(chunks)), nontrivial=nmsg > 0 and len(chunks) > 1)
        if impl != model:
            res.disagree(case_single(), [impl_e, impl_r, exc], list(model))
        # the oracle (independent of the model):
        why = None
        if sent is not None:
            # (i) delivered == sent: the handshake lines, authentication, the messages, nothing left over
            want = ([[0, bytes(l)] for l in sent[0]] + [[1]] + [[2, bytes(m)] for m in sent[1]], b'')
            if spec != want:
                raise RuntimeError('spec semantics differs from the sent messages on %r' % (case_single(),))
            if impl != want:
                why = 'delivered differs from sent: ' + describe(impl, want)
        if why is None and (deliveries(impl) != deliveries(spec) or
                            (impl_r is not None and spec[1] is not None and impl_r != spec[1])):
            # (ii) the messages delivered (and the bytes kept for later) are those of the whole stream
            why = describe(impl, spec)
        if why is None and ref is not None and impl != ref:
            # (iii) this partition and the same bytes delivered in one read are told apart
            why = 'partition dependence: ' + describe(impl, ref).replace('the stream semantics gives', 'the same bytes in one read give')
        if why is not None:
            why += (' [%s escaped dataReceived]' % exc) if exc else ''
            if exc == 'RecursionError':
                violate(case_single(), why, SIG_D02)
            else:
                pending.append((case_single(), impl, spec, exc, why, ref))

    def one_read(client, maxl, auth, stream):
        if not stream and not client:
            return None
        e, r, _ = im.run(client, maxl, auth, [stream])
        return (e, r)

    for c, o in zip(cases, outs):
        if o == [-1]:
            raise RuntimeError('model rejected input %r' % (c[:4],))
        kind = c[0]
        if kind == 'run':
            _, client, maxl, auth, chunks, sent = c
            chunks = [bytes(x) for x in chunks]
            model, legacy, spec = (model_result(x) for x in o)
            check_one(lambda c=c: c, client, maxl, auth, chunks, sent, model, spec, legacy,
                      one_read(client, maxl, auth, b''.join(chunks)) if len(chunks) > 1 else None)
            if len(chunks) <= 2:
                dist['max_messages_in_one_read'] = max(dist['max_messages_in_one_read'],
                                                       sum(1 for e in spec[0] if e[0] == 2))
            if len(res.samples) < 3:
                res.sample(c if len(repr(c)) < 1500 else ['run', client, maxl, auth, '(%d chunks, %d bytes)'
                                                          % (len(chunks), sum(map(len, chunks)))])
        elif kind == 'cuts':
            _, client, maxl, auth, stream, cutss, sent = c
            stream = bytes(stream)
            spec = model_result(o[0])
            expanded = []
            for n, r in o[1]:
                expanded.extend([model_result(r)] * n)
            if len(expanded) != len(cutss):
                raise RuntimeError('model answered %d partitions for %d' % (len(expanded), len(cutss)))
            ref = one_read(client, maxl, auth, stream)
            done_at = None
            if sent is not None:
                done_at = (0 if client else 1) + sum(len(l) + 2 for l in sent[0])
            for cuts, model in zip(cutss, expanded):
                chunks = chunks_of(stream, cuts)
                if done_at is not None and len(stream) > done_at and not any(c0 == done_at for c0 in cuts):
                    dist['handshake_and_message_in_one_read'] += 1
                check_one(lambda chunks=chunks: ['run', client, maxl, auth, chunks, sent],
                          client, maxl, auth, chunks, sent, model, spec, None, ref)
            if len(res.samples) < 5:
                res.sample(['cuts', client, maxl, auth, stream, cutss[:3] + ['... %d partitions' % len(cutss)], None])
        elif kind == 'raw':
            _, client, maxl, auth, chunks = c
            chunks = [bytes(x) for x in chunks]
            impl_e, impl_r, exc = im.run(client, maxl, auth, chunks, raw_mode=True)
            model = model_result(o)
            dist['raw_mode'] += 1
            res.count(('raw', client, maxl, repr(auth), tuple(chunks)), nontrivial=len(chunks) > 1)
            if (impl_e, impl_r) != model:
                res.disagree(c, [impl_e, impl_r, exc], list(model))
        elif kind == 'parsed':
            _, client, auth, chunks, summaries = c
            chunks = [bytes(x) for x in chunks]
            impl_e, impl_r, exc = im.run(client, None, auth, chunks, parsed=True)
            model, legacy, spec = (model_result(x) for x in o)
            dist['parsed_variant'] += 1
            res.count(('parsed', client, repr(auth), tuple(chunks)), nontrivial=len(chunks) > 1 and len(summaries) > 0)
            # the same observation as in the raw variant: the bytes each typed callback was given
            as_raw = ([e if e[0] != 2 else [2, e[2][4]] for e in impl_e], impl_r)
            got = [[e[1]] + e[2] for e in impl_e if e[0] == 2]
            want = [[s[0], s[0], s[1], s[2], s[3], bytes(s[4])] for s in summaries]
            if as_raw != model:
                res.disagree(c, [as_raw[0], as_raw[1], exc], list(model))
            if as_raw != spec:
                violate(c, 'typed callbacks: ' + describe(as_raw, spec) + ((' [%s escaped dataReceived]' % exc) if exc else ''),
                        classify(exc, [(as_raw, legacy)], spec))
            elif got != want or exc or impl_r != b'':
                k = 0
                while k < len(got) and k < len(want) and got[k] == want[k]:
                    k += 1
                violate(c, 'typed callbacks (methodCallReceived/...): %d of %d sent messages delivered intact, '
                           'first difference at message #%d%s'
                        % (k, len(want), k, (' [%s escaped]' % exc) if exc else ''), SIG_PARSED)
    # second pass: classify the failing partitions of 'cuts' cases against the legacy model
    # (a few of every shape of failure, so that every distinct signature is represented)
    if pending:
        buckets = {}
        for p in pending:
            cs, impl, spec, exc, why, ref = p
            k = 0
            while k < len(impl[0]) and k < len(spec[0]) and impl[0][k] == spec[0][k]:
                k += 1
            key = (impl[0][k][0] if k < len(impl[0]) else -1, spec[0][k][0] if k < len(spec[0]) else -1,
                   [1] in spec[0][:k], exc, cs[2], impl == spec)
            buckets.setdefault(key, []).append(p)
        chosen = []
        for key in sorted(buckets, key=repr):
            chosen.extend(sorted(buckets[key], key=lambda p: len(repr(p[0])))[:20])
        chosen = chosen[:800]
        res.extra['violations_not_listed'] = res.extra.get('violations_not_listed', 0) + len(pending) - len(chosen)
        l2 = []
        for cs, impl, spec, exc, why, ref in chosen:
            _, client, maxl, auth, chunks, sent = cs
            ml = im.maxl if maxl is None else maxl
            l2.append('(4 1 %d %d 990 %s %s)' % (client, ml, common.dump(auth_dump(auth)), bigs(chunks)))
            l2.append('(4 1 %d %d 990 %s %s)' % (client, ml, common.dump(auth_dump(auth)), bigs([b''.join(chunks)])))
        o2 = common.run_model(l2, jobs=4)
        for i, (cs, impl, spec, exc, why, ref) in enumerate(chosen):
            legacy_p = model_result(o2[2 * i][1])
            legacy_1 = model_result(o2[2 * i + 1][1])
            violate(cs, why, classify(exc, [(impl, legacy_p), (ref, legacy_1)], spec))
    # smallest failing case of each signature first (the runner writes the first one as the replay)
    res.violations.sort(key=lambda v: len(repr(v['case'])))


# --------------------------------------------------------------------------
# generators
NAMES = ['a', 'Ping', 'org.x.Y', 'com.example.Iface1', 'm\r\n']
PATHS = ['/', '/a', '/org/x/y', '/a\r\n/b']
STRS = ['', 'x', 'x\r\ny', '\r\n', 'hello world', '\r\n\r\n', 'BEGIN\r\n', 'é\r\n中']
SERIALS = [1, 2, 7, 0x0a0d, 0x0d0a0000, 0x0a0d0a0d, 255, 65536, 2 ** 32 - 1]


class Gen:
    def __init__(self, rng):
        self.rng = rng

    def body(self, small):
        r = self.rng
        sig = r.choice(['', '', 's', 'u', 'su', 'ay', 'as', 'ss'] if not small else ['', '', '', 's', 'u'])
        vals = []
        for t in M.split_sig(sig):
            if t == 's':
                vals.append(r.choice(STRS if not small else ['', 'x', '\r\n', 'a\r\nb']))
            elif t == 'u':
                vals.append(r.choice([0, 1, 0x0a0d, 0x0d0a, 2 ** 32 - 1, r.randrange(2 ** 32)]))
            elif t == 'ay':
                n = r.choice([0, 1, 2, 13, 64, 300, 2569])
                vals.append([r.choice([13, 10, 0, 108, 66, r.randrange(256)]) for _ in range(n)])
            elif t == 'as':
                vals.append([r.choice(STRS) for _ in range(r.randrange(4))])
        return sig, vals

    def message(self, small=False, le=None):
        """-> (raw, summary)"""
        r = self.rng
        le = r.random() < 0.5 if le is None else le
        mtype = r.choice([1, 2, 3, 4]) if not small else r.choice([2, 2, 2, 3, 1, 4])
        serial = r.choice(SERIALS) if r.random() < 0.6 else r.randrange(1, 2 ** 32)
        sig, vals = self.body(small)
        names = NAMES[:4] if r.random() < 0.9 else NAMES
        paths = PATHS[:3] if r.random() < 0.9 else PATHS
        f = []
        if mtype == 1:
            f = [[1, 'o', r.choice(paths if not small else ['/', '/a'])], [3, 's', r.choice(['a', 'Ping'])]]
            if not small and r.random() < 0.5:
                f.insert(1, [2, 's', r.choice(names[2:4])])
        elif mtype == 2:
            f = [[5, 'u', r.choice([1, 0x0a0d, 77])]]
        elif mtype == 3:
            f = [[4, 's', r.choice(['a.b', 'org.x.Err'] if not small else ['a.b'])], [5, 'u', r.choice([1, 0x0a0d])]]
        else:
            f = [[1, 'o', r.choice(paths if not small else ['/'])], [2, 's', r.choice(['a.b', 'org.x.Y'] if not small else ['a.b'])],
                 [3, 's', r.choice(['S', 'Changed'] if not small else ['S'])]]
        if not small:
            if r.random() < 0.3:
                f.append([6, 's', r.choice([':1.5', 'org.x.Dest'])])
            if r.random() < 0.3:
                f.append([7, 's', ':1.%d' % r.randrange(100)])
        if sig:
            f.append([8, 'g', sig])
        flags = r.choice([0, 0, 1, 2, 3])
        raw = M.build(le, mtype, flags, serial, f, sig, vals)
        assert M.expected_length(raw) == len(raw)
        s = M.summary(mtype, serial, f, sig, vals)
        return raw, s + [raw]

    def handshake(self, client, short=False):
        """-> (lines, auth) : the authenticator accepts at the last line"""
        r = self.rng
        if client:
            pool = [b'REJECTED EXTERNAL DBUS_COOKIE_SHA1 ANONYMOUS', b'DATA 3132', b'ERROR', b'REJECTED', b'R\r', b'']
            last = r.choice([b'OK 1234deadbeef', b'AGREE_UNIX_FD', b'OK'])
        else:
            pool = [b'AUTH EXTERNAL 31303030', b'AUTH', b'DATA 616263', b'CANCEL', b'NEGOTIATE_UNIX_FD', b'\n', b'A\r']
            last = r.choice([b'BEGIN', b'BEGIN', b'B'])
        if short:
            pool = [x for x in pool if len(x) <= 9]
            last = last[:6]
        k = r.choice([0, 1, 1, 2] if short else [0, 1, 2, 3, 4])
        lines = [r.choice(pool) for _ in range(k)] + [last]
        if r.random() < 0.5:
            auth = [0, [[last, 1]]]
        else:
            auth = [1, [0] * k + [1]]
        return lines, auth

    def stream(self, client, lines, msgs):
        return (b'' if client else b'\0') + b''.join(l + b'\r\n' for l in lines) + b''.join(msgs)

    def random_cuts(self, n, k):
        r = self.rng
        return sorted(r.randrange(0, n + 1) for _ in range(k))


def all_cuts(n, double=True, client=True):
    """every single cut and every double cut (cut positions 1..n-1; with empty reads only where allowed)"""
    lo = 1
    out = [[]]
    out += [[i] for i in range(lo, n)]
    if double:
        out += [[i, j] for i in range(lo, n) for j in range(i + 1, n)]
    return out


def shard(case_head, cutss, tail, per=1500):
    return [case_head + [cutss[i:i + per]] + tail for i in range(0, len(cutss), per)]


def gen_cases(ctx):
    rng = ctx.rng
    g = Gen(rng)
    cases = []
    info = {'exhaustive_streams': []}

    # (A) short streams: handshake + small messages, every single and every double cut
    nA = ctx.n(10, 120)
    limit = ctx.n(150, 200)
    for i in range(nA):
        client = i % 2
        while True:
            lines, auth = g.handshake(client, short=True)
            msgs = [g.message(small=True, le=(None if j else bool(i & 2)))[0] for j in range(rng.choice([1, 2, 2, 3]))]
            tail = b''
            if rng.random() < 0.4:
                extra = g.message(small=True)[0]
                tail = extra[:rng.randrange(1, len(extra))]
            s = g.stream(client, lines, msgs) + tail
            if len(s) <= limit and (i % 3 or b'\r\n' in b''.join(msgs)):
                break
        sent = [lines, msgs] if not tail else None
        cutss = all_cuts(len(s))
        info['exhaustive_streams'].append([len(s), len(cutss)])
        cases += shard(['cuts', client, None, auth, s], cutss, [sent])

    # (B) the boundary between handshake and messages, message bytes containing CR LF:
    #     every single cut, client and server side, plus the coalesced read
    for i in range(ctx.n(30, 1000)):
        client = i % 2
        lines, auth = g.handshake(client)
        msgs = [g.message()[0] for _ in range(rng.choice([1, 2, 3]))]
        if not any(b'\r\n' in m for m in msgs):
            msgs.append(M.build(i % 4 < 2, 1, 0, 0x0a0d, [[1, 'o', '/a'], [3, 's', 'M'], [8, 'g', 's']], 's', ['x\r\ny']))
        s = g.stream(client, lines, msgs)
        if len(s) > 1500:
            cutss = [[]] + [[c] for c in sorted(rng.sample(range(1, len(s)), 300))]
        else:
            cutss = all_cuts(len(s), double=False)
        cases += shard(['cuts', client, None, auth, s], cutss, [[lines, msgs]])

    # (C) longer sequences, mixed byte orders: random partitions, one byte at a time, all in one read
    for i in range(ctx.n(40, 1500)):
        client = rng.random() < 0.5
        lines, auth = g.handshake(client)
        msgs = [g.message()[0] for _ in range(rng.choice([3, 5, 8, 20, 40]))]
        s = g.stream(client, lines, msgs)
        n = len(s)
        cutss = [[]]
        for _ in range(ctx.n(6, 12)):
            cuts = g.random_cuts(n, rng.choice([1, 2, 3, 5, 10, 30, 100]))
            # empty reads anywhere, except that the very first read of a server-side connection is not empty
            cutss.append(cuts if client else [c for c in cuts if c > 0])
        if n <= ctx.n(1200, 3000):
            cutss.append(list(range(1, n)))                   # one byte at a time
        cases.append(['cuts', int(client), None, auth, s, cutss, [lines, msgs]])

    # (D) thousands of messages in one read
    for i in range(ctx.n(2, 6)):
        client = i % 2
        lines, auth = g.handshake(client)
        pool = [g.message(small=True)[0] for _ in range(12)]
        msgs = [rng.choice(pool) for _ in range(3000 if i < 2 else rng.choice([1000, 2000, 5000]))]
        s = g.stream(client, lines, msgs)
        hs = len(s) - sum(map(len, msgs))
        if i % 2 == 0:
            chunks = [s[:hs], s[hs:]]            # all messages in one read
        else:
            chunks = [s]                         # ... in the same read as the handshake
        cases.append(['run', client, None, auth, chunks, [lines, msgs]])

    # (E) malformed / hostile streams with a small line limit, all cuts for the short ones
    rules = [0, [[b'GO', 1], [b'FAIL', 2], [b'BOOM', 3]]]
    toks = [b'\r\n', b'\r\n', b'\r', b'\n', b'GO\r\n', b'GO\r\n', b'FAIL\r\n', b'BOOM\r\n', b'ab', b'AUTH x', b'\0', b'l', b'B',
            b'xxxxxxx', b'yyyyyyyyy', b'\r\r\n', b'GO']
    for i in range(ctx.n(60, 2000)):
        client = rng.random() < 0.6
        maxl = rng.choice([4, 6, 7, 8, 9])
        parts = [rng.choice(toks) for _ in range(rng.randrange(1, 8))]
        if rng.random() < 0.7:
            parts.append(b'GO\r\n')
            for _ in range(rng.randrange(0, 4)):
                le = rng.random() < 0.5
                b0 = b'l' if le else rng.choice([b'B', b'B', b'X', b'\r'])
                harr = rng.choice([0, 0, 1, 7, 8, 13])
                body = rng.choice([0, 0, 2, 10, 13])
                e = '<' if le else '>'
                hdr = b0 + bytes(rng.choice([13, 10, 0, 1, 2]) for _ in range(3)) + struct.pack(e + 'I', body) + \
                    bytes(rng.choice([13, 10, 0, 5]) for _ in range(4)) + struct.pack(e + 'I', harr)
                total = (16 + harr + 7) // 8 * 8 + body
                parts.append(hdr + bytes(rng.choice([13, 10, 0, 65]) for _ in range(total - 16)))
            if rng.random() < 0.5:
                parts.append(bytes(rng.choice([13, 10, 0, 108, 66, 1]) for _ in range(rng.randrange(1, 20))))
        s = (b'' if client else rng.choice([b'\0', b'\0', b'\0', b'x'])) + b''.join(parts)
        if not s:
            continue
        auth = rules if rng.random() < 0.8 else [1, [rng.choice([0, 0, 0, 1, 2, 3]) for _ in range(6)]]
        if len(s) <= 70:
            cutss = all_cuts(len(s))
        else:
            cutss = all_cuts(len(s), double=False) + [g.random_cuts(len(s), 3) if client else [] for _ in range(20)]
        cases += shard(['cuts', int(client), maxl, auth, s], cutss, [None])
        # the same without the transport contract (model <-> code only)
        if i % 3 == 0:
            for _ in range(4):
                k = rng.randrange(1, 4)
                cuts = sorted(rng.randrange(1, len(s)) for _ in range(k)) if len(s) > 1 else []
                cases.append(['raw', int(client), maxl, auth, chunks_of(s, cuts)])

    # (E2) after a clean handshake: frames with arbitrary first byte (only 'l' means little endian),
    #      arbitrary small lengths and content
    for i in range(ctx.n(40, 1500)):
        client = i % 2
        parts = []
        for _ in range(rng.randrange(1, 5)):
            b0 = rng.choice([b'l', b'l', b'B', b'B', b'X', b'\r', b'\n', b'\0', b'L'])
            e = '<' if b0 == b'l' else '>'
            harr = rng.randrange(0, 24)
            body = rng.randrange(0, 24)
            total = (16 + harr + 7) // 8 * 8 + body
            parts.append(b0 + bytes(rng.randrange(256) for _ in range(3)) + struct.pack(e + 'I', body) +
                         bytes(rng.choice([13, 10, 0, 5]) for _ in range(4)) + struct.pack(e + 'I', harr) +
                         bytes(rng.choice([13, 10, 0, 65, rng.randrange(256)]) for _ in range(total - 16)))
        tail = b''
        if rng.random() < 0.3:
            tail = bytes(rng.randrange(256) for _ in range(rng.randrange(1, 16)))
        s = (b'' if client else b'\0') + b'GO\r\n' + b''.join(parts) + tail
        sent = [[b'GO'], parts] if not tail and all(x[:1] in (b'l', b'B') for x in parts) else None
        if len(s) <= 80:
            cutss = all_cuts(len(s))
        else:
            cutss = all_cuts(len(s), double=False) + [sorted(set(rng.randrange(1, len(s)) for _ in range(rng.choice([2, 3, 6]))))
                                                      for _ in range(60)]
        cases += shard(['cuts', client, None, [0, [[b'GO', 1]]], s], cutss, [sent])

    # (F) the real line limit: a line of exactly MAX_AUTH_LENGTH bytes cut inside its delimiter, longer lines
    from txdbus import protocol as _p
    mx = _p.BasicDBusProtocol.MAX_AUTH_LENGTH
    for client in (1, 0):
        pre = b'' if client else b'\0'
        m1 = g.message(small=True)[0]
        for ll in (mx - 1, mx, mx + 1):
            line = b'A' * ll
            s = pre + line + b'\r\n' + b'GO\r\n' + m1
            p0 = len(pre) + ll
            cutss = [[], [p0], [p0 + 1], [p0 + 2], [p0 - 1], [p0 + 1, p0 + 2], [5, p0 + 1]]
            cases.append(['cuts', client, None, [0, [[b'GO', 1]]], s, cutss, [[line, b'GO'], [m1]] if ll <= mx else None])
        s = pre + b'A' * (mx + 5)
        cases.append(['cuts', client, None, [0, [[b'GO', 1]]], s, [[], [mx], [mx + 1], [mx + 2], [mx + 3], [10, mx + 1]], None])
        # a long binary remainder arriving with the end of the handshake
        big = M.build(True, 1, 0, 9, [[1, 'o', '/a'], [3, 's', 'M'], [8, 'g', 'ay']], 'ay', [[rng.randrange(256) for _ in range(mx + 4000)]])
        s = pre + b'GO\r\n' + big
        cases.append(['cuts', client, None, [0, [[b'GO', 1]]], s, [[], [len(pre) + 4], [len(s) - 100], [len(pre) + 2, len(s) - 7]], [[b'GO'], [big]]])

    # (G) the typed callbacks (default rawDBusMessageReceived -> parseMessage -> methodCallReceived ...)
    for i in range(ctx.n(40, 1000)):
        client = i % 2
        lines, auth = g.handshake(client)
        ms = [g.message() for _ in range(rng.choice([1, 2, 4, 8]))]
        s = g.stream(client, lines, [m[0] for m in ms])
        n = len(s)
        summaries = [m[1] for m in ms]
        for cuts in ([], [rng.randrange(1, n)], sorted(rng.randrange(1, n) for _ in range(rng.choice([2, 5, 20])))):
            cases.append(['parsed', client, auth, chunks_of(s, cuts), summaries])
    if True:
        client = 1
        lines, auth = g.handshake(client)
        pool = [g.message(small=True) for _ in range(8)]
        ms = [rng.choice(pool) for _ in range(3000)]
        s = g.stream(client, lines, [m[0] for m in ms])
        cases.append(['parsed', client, auth, [s], [m[1] for m in ms]])
    return cases, info


def run(ctx, res):
    evaluate_limit(ctx, [['limit', 2 ** 27, True, [5, 21, 2 ** 26]], ['limit', 2 ** 27, False, [5 + 16, 2 ** 27]],
                         ['limit', 2 ** 27 - 8, True, [4, 5 + 2 ** 27 - 9]]], res)
    cases, info = gen_cases(ctx)
    res.rule = ('a case is one stream (optional NUL, authentication lines, messages of both byte orders built by an '
                'independent encoder, possibly a partial or malformed tail) with a scripted authenticator and one or many '
                'partitions into reads; counted per partition; non-trivial = at least one message in the stream and at '
                'least two reads. Families: (A) streams <= %d bytes, every single and every double cut; (B) handshake/'
                'message boundary with CR LF inside message bytes, every single cut, both sides; (C) 3-40 messages, '
                'random partitions, one byte at a time, one read; (D) 1000-5000 messages in one read; (E) hostile '
                'streams (failing/raising authenticator, over-long lines with a small limit, arbitrary frame headers, '
                'wrong first byte), every single/double cut; (E2) frames with arbitrary byte-order mark, lengths and content after a '
                'clean handshake; (F) the real MAX_AUTH_LENGTH boundary; (G) typed callbacks'
                % ctx.n(150, 200))
    evaluate(ctx, cases, res)
    res.exhaustive = True
    res.extra['exhaustive_scope'] = ('every single and every double cut of %d streams of length <= %d '
                                     '(lengths and partition counts: %r)'
                                     % (len(info['exhaustive_streams']), ctx.n(150, 200), info['exhaustive_streams'][:12]))
