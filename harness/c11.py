"""C11 correspondence and oracle: a call through a remote-object proxy, end to end, through the REAL classes wired
in-process (harness/c11_net.py): one bus.Bus with a BusProtocol per client, 2-4 DBusClientConnection clients, byte
queues per link drained by a scheduler the case controls - versus Model/System.v (the composition of the component
models) and versus the property text (oracle).

A case (JSON-serialisable):
  k        number of clients (client i is connection i, ':1.i'); names: [[client, well-known name, flags]]
  ifaces   [[name, [[member, in, out] ...]] ...]          DBusInterface objects of the exporting side (noRegister)
  classes  [{'ifaces': [index ...], 'attrs': [[python name, fid, [iface, member] | None, wants dbusCaller]]}]
  objects  [[client, path, class index]]                   exportObject(class(path)) on that client
  behs     [[fid, beh]]  beh = [0, form] returns the value | [1, [class, dbusErrorName | None, text]] raises
                               | [2] returns an unfired Deferred | [3] returns its argument(s)
  sched    the schedule, in order:
     [0, c, name, [[member, in, out] ...], noreg]   DBusInterface(name, Method(..) ...) on the calling side
     [1, c, bus, path, ifarg, replace]              c.getRemoteObject(bus, path, ifarg, replace);
                                                    ifarg None | [0, spec] | [1, [spec ...]]; spec [0, n] the n-th
                                                    declared interface object | [1, name]
     [2, c, pidx, member, [form ...], [expectReply, autoStart, timeout | None, interface | None]]
                                                    proxy number pidx of c: callRemote(member, *args, **kw)
     [3, c, cuts, spill]   the bus reads the next message client c wrote, in several reads cut at `cuts`; the last
                           read also carries `spill` bytes of the message after it
     [4, c, cuts, spill]   client c reads the next message the bus wrote to it
     [5, c, key, later]    the key-th Deferred returned by an exported method fires; later = [0, form] | [1, exc]
     [6, n, member, in, out]   the exporting side re-declares / adds a method on its n-th interface OBJECT while it is
                           exported: ifaces[n].addMethod(Method(member, in, out)) (the model is given the declarations
                           in force when the judged calls are made, see model_line)
     [7, c]                client c LOSES ITS CONNECTION: both ends of its link are told (connectionLost(ConnectionDone)
                           on the client's protocol and on the bus-side protocol).  Only a client that takes part in
                           no call in flight and has nothing in transit (a bystander) is ever lost, see ASSUMPTIONS
  exc_home where the classes of the raised exceptions are defined (absent / 0: at the top level of a module, 1: in the
           body of another class, 2: inside a function): __qualname__ 'E' | 'Holder.E' | 'factory.<locals>.E'
  expect   oracle data per call (see spec_expect), absent for cases outside the property's quantifier

Compared with the model: the invocation records on the exporters (where, which function, decoded arguments, caller
name if asked for), every completion of a Deferred handed out by callRemote / getRemoteObject (whose, which, with
what), the exceptions callRemote raised, the proxies handed out, dropped connections, what is still in flight.
Oracle (implementation vs the property text, independent of the model): see judge()."""
import re

from harness import common, c10, c11_net
from harness import marshal_common as mc

ASSUMPTIONS = [
    'the clients are attached: authenticated (bypassed as in harness/c13.py, c14.py, c08.py, c09.py: C06 / C07) and '
    'Hello answered (C09); neither the calling nor the exporting client of a call disconnects (C09: what a call '
    'completes with when its OWN connection goes is C08) and no timer fires (C08: a timeout may be armed, the clock '
    'of txdbus.client.reactor is never advanced)',
    'OTHER clients of the same bus may lose their connection while calls are in flight (schedule action 7; "any '
    'number of clients": the two clients of the call stay attached, the property excuses nothing because a third one '
    'leaves).  Model/System.v has no disconnect action; the lost client is always a bystander - it exports nothing, '
    'owns no well-known name, has no call of its own in flight and nothing in transit on its link, nobody has a '
    'match rule (no NameOwnerChanged is delivered to anyone) - so its departure is invisible to the others and the '
    'model is run on the schedule WITHOUT the action.  The oracle for the calls in flight is the property text '
    'itself (judge): they run the method and complete with what it returned / raised, exactly once',
    'a schedule is an order of MESSAGE completions per link plus a partition of every message into reads (cuts, and '
    'bytes of the following message spilling into the last read); that the framing layer delivers exactly the '
    'messages whatever the partition is C04 (the harness does cut the reads, the model delivers messages)',
    'all clients live in one Python process here: DBusMessage._nextSerial and DBusInterface.knownInterfaces are '
    'shared (the model is told so: every client in process 0); serial numbers are never compared',
    'knownInterfaces is reset at the start of a case to the two interfaces txdbus registers at import '
    '(org.freedesktop.DBus.Properties, org.freedesktop.DBus); exported interfaces are declared with noRegister',
    'the XML text layer (string formatting, xml.sax) is bridged as in C15: the model carries the element events; only '
    'methods are modelled in the exported interfaces (signals / properties never influence a call)',
    'user code is passive (returns / raises / returns a Deferred the schedule fires); values returned and raised '
    'texts in the oracle part are conforming (non-conforming ones: correspondence only, C10)',
    'exceptions raised locally by callRemote are compared by class (AttributeError / TypeError), failed Deferreds by '
    'kind (RemoteError from a reply with name, message, values; RemoteError from the return-signature check; any '
    'other failure; IntrospectionFailed), never by text except the message of a RemoteError mirroring a raise',
    'an exporter that re-declares / adds methods on an interface object it already exports (schedule action 6) is '
    'not in Model/System.v, whose exports are fixed for a run: the model is given the declarations in force AFTER the '
    'last such action and the actions themselves are left out of its schedule.  The generator keeps this exact: '
    'before the last re-declaration only unchanged members are called, afterwards calls go through proxies obtained '
    'afterwards (introspection with replaceKnownInterfaces=True - all clients share one knownInterfaces here - or an '
    'explicit declaration of the current interface).  The oracle for these cases is the property text itself: the '
    'proxy discovered by introspection follows what the exporter exports when it is introspected',
    'where an exception class is DEFINED (module level, nested in a class, local to a function) is not part of what '
    'was raised: the model knows class name, dbusErrorName and text only, and the cases vary the place of definition',
    'error replies the dispatcher itself makes (UnknownObject / UnknownMethod / InvalidArgs, unencodable result) are '
    'compared by name class only, their texts are not modelled (C10)',
]

PROPS = 'org.freedesktop.DBus.Properties'
PROPS_DECL = [['Get', 'ss', 'v'], ['Set', 'ssv', ''], ['GetAll', 's', 'a{sv}']]
PYEXC = 'org.txdbus.PythonException.'
PLACEHOLDER = PYEXC + 'unmodelled'
INVALID_NAME = 'org.txdbus.InvalidErrorName'
DISPATCH_ERRORS = ('org.freedesktop.DBus.Error.UnknownObject', 'org.freedesktop.DBus.Error.UnknownMethod',
                   'org.freedesktop.DBus.Error.InvalidArgs')
FUEL = 40
SERIAL0 = 1000


# ---------------------------------------------------------------------------------------------------------------
# the implementation side
class Exec(object):
    """runs a case step by step on the real classes"""

    def __init__(self, case):
        E = c10.env()
        self.E = E
        self.case = case
        from txdbus.interface import DBusInterface
        from txdbus import objects, error
        self.error = error
        self.objects = objects
        known = DBusInterface.knownInterfaces
        keep = {n: known[n] for n in (PROPS, 'org.freedesktop.DBus') if n in known}
        known.clear()
        known.update(keep)
        self.net = c11_net.Net(case['k'], first_serial=SERIAL0 - 2 * case['k'] - 50)
        self.k = case['k']
        self.invs = []            # [client, fid, [form ...], caller]
        self.done = []            # [client, id, completion]
        self.raised = []          # [client, 'attr' | 'type' | other class name]
        self.proxies = {i: [] for i in range(1, self.k + 1)}
        self.next_id = {i: 0 for i in range(1, self.k + 1)}
        self.pending = []         # Deferreds returned by exported methods, in order of creation; None once fired
        self.declared = []        # DBusInterface objects of the calling side, in order of declaration
        self.behs = {b[0]: b[1] for b in case['behs']}
        self.current = None       # (sender, serial) of the call being dispatched (observed from outside, oracle only)
        self.pending_tags = []
        self.gone = []            # clients whose connection was lost (action 7)
        for i in range(1, self.k + 1):
            self.spy(self.net.client[i].objHandler)
        # exporting side
        ifobjs = [E['DBusInterface'](n, *[E['Method'](m, i, o) for m, i, o in ms], noRegister=True)
                  for n, ms in case['ifaces']]
        self.ifobjs = ifobjs
        self.classes = []
        for kk, cd in enumerate(case['classes']):
            ns = {'dbusInterfaces': [ifobjs[i] for i in cd['ifaces']]}
            for pyname, fid, deco, caller in cd['attrs']:
                f = self.make_func(pyname, fid, caller)
                if deco is not None:
                    f = objects.dbusMethod(deco[0], deco[1])(f)
                ns[pyname] = f
            self.classes.append(type('X%d' % kk, (objects.DBusObject,), ns))
        for c, path, ci in case['objects']:
            obj = self.classes[ci](path)
            obj._c11_client = c
            self.net.client[c].exportObject(obj)
        for c, name, flags in case['names']:
            self.net.client[c].requestBusName(name, allowReplacement=bool(flags & 1), replaceExisting=bool(flags & 2),
                                              doNotQueue=bool(flags & 4), errbackUnlessAcquired=False)
        self.net.flush()
        self.net.message.DBusMessage._nextSerial = SERIAL0

    def spy(self, handler):
        orig = handler.handleMethodCallMessage

        def wrapped(msg):
            self.current = (msg.sender, msg.serial)
            try:
                return orig(msg)
            finally:
                self.current = None
        handler.handleMethodCallMessage = wrapped

    # -- user code ------------------------------------------------------------------------------------------
    def make_exc(self, x):
        cls_name, dname, text = x
        ns = {} if dname is None else {'dbusErrorName': dname}
        # where the class statement stands (what a class statement nested in a class / in a function records)
        home = self.case.get('exc_home', 0)
        if home == 1:
            ns['__qualname__'] = 'Holder.' + cls_name
        elif home == 2:
            ns['__qualname__'] = 'factory.<locals>.' + cls_name
        return type(cls_name, (Exception,), ns)(text)

    def make_func(self, pyname, fid, caller):
        ex = self
        missing = object()
        nocaller = object()
        params = ['self'] + ['a%d=_M' % i for i in range(5)] + (['dbusCaller=_M'] if caller else [])
        src = 'def f(%s):\n    return _rec(self, %d, [%s], %s)\n' % (
            ', '.join(params), fid, ', '.join('a%d' % i for i in range(5)), 'dbusCaller' if caller else '_N')

        def _rec(obj, fid, args, cl):
            args = [a for a in args if a is not missing]
            ex.invs.append([obj._c11_client, fid, [mc.pv_form(a) for a in args], None if cl is nocaller else [cl]])
            beh = ex.behs.get(fid, [0, [10]])
            if beh[0] == 0:
                return c10.from_form(beh[1], ex.E)
            if beh[0] == 1:
                raise ex.make_exc(beh[1])
            if beh[0] == 2:
                d = ex.E['defer'].Deferred()
                ex.pending.append(d)
                ex.pending_tags.append(ex.current)
                return d
            return args[0] if len(args) == 1 else tuple(args)
        ns = {'_M': missing, '_rec': _rec, '_N': nocaller}
        exec(src, ns)
        f = ns['f']
        f.__name__ = pyname
        f.__qualname__ = pyname
        return f

    # -- completions ----------------------------------------------------------------------------------------
    def watch(self, c, d, intro):
        cid = self.next_id[c]
        self.next_id[c] += 1

        def ok(v):
            if intro:
                if isinstance(v, self.objects.RemoteDBusObject):
                    self.proxies[c].append(v)
                    self.done.append([c, cid, [4, len(self.proxies[c]) - 1]])
                else:
                    self.done.append([c, cid, ['?', repr(v)]])
                return None
            try:
                self.done.append([c, cid, [0, None if v is None else [mc.pv_form(v)]]])
            except TypeError:
                self.done.append([c, cid, ['?', repr(v)]])

        def bad(f):
            e = f.value
            if isinstance(e, self.error.IntrospectionFailed):
                self.done.append([c, cid, [5]])
            elif isinstance(e, self.error.RemoteError):
                if 'values' in e.__dict__:
                    self.done.append([c, cid, [1, e.errName, e.message, [mc.pv_form(x) for x in e.values]]])
                else:
                    self.done.append([c, cid, [2]])
            else:
                self.done.append([c, cid, [5] if intro else [3]])
        d.addCallbacks(ok, bad)

    # -- one action -----------------------------------------------------------------------------------------
    def do(self, a):
        # case['limit']: DBusMessage._maxMsgLen while the application calls (callRemote / getRemoteObject build -
        # and marshal - the MethodCallMessage there); everywhere else the class keeps its own 2**27
        lim = self.case.get('limit')
        if lim is None or a[0] not in (1, 2):
            return self._do(a)
        M = self.net.message.DBusMessage
        old = M._maxMsgLen
        M._maxMsgLen = lim
        try:
            return self._do(a)
        finally:
            M._maxMsgLen = old

    def _do(self, a):
        kind = a[0]
        E = self.E
        if kind == 0:
            _, c, name, decls, noreg = a
            kw = {'noRegister': True} if noreg else {}
            try:
                self.declared.append(E['DBusInterface'](name, *[E['Method'](m, i, o) for m, i, o in decls], **kw))
            except Exception:
                pass
        elif kind == 1:
            _, c, bus, path, ifarg, replace = a
            if bus == 'org.freedesktop.DBus':
                return

            def spec(s):
                return self.declared[s[1]] if s[0] == 0 else s[1]
            arg = None if ifarg is None else (spec(ifarg[1]) if ifarg[0] == 0 else [spec(s) for s in ifarg[1]])
            d = self.net.client[c].getRemoteObject(bus, path, arg, replace)
            if d.called and isinstance(d.result, self.objects.RemoteDBusObject):
                self.proxies[c].append(d.result)
            else:
                self.watch(c, d, True)
        elif kind == 2:
            _, c, pidx, member, forms, kwl = a
            if pidx >= len(self.proxies[c]):
                return
            args = [c10.from_form(f, E) for f in forms]
            kw = {}
            if not kwl[0]:
                kw['expectReply'] = False
            if not kwl[1]:
                kw['autoStart'] = False
            if kwl[2] is not None:
                kw['timeout'] = kwl[2]
            if kwl[3] is not None:
                kw['interface'] = kwl[3]
            try:
                d = self.proxies[c][pidx].callRemote(member, *args, **kw)
            except AttributeError:
                self.raised.append([c, 'attr'])
                return
            except TypeError:
                self.raised.append([c, 'type'])
                return
            self.watch(c, d, False)
        elif kind in (3, 4):
            link = ('u' if kind == 3 else 'd', a[1])
            if self.net.messages(link) == 0:
                return
            self.net.deliver_message(link, a[2], a[3])
        elif kind == 5:
            _, c, key, later = a
            if key < len(self.pending) and self.pending[key] is not None:
                d, self.pending[key] = self.pending[key], None
                if later[0] == 0:
                    d.callback(c10.from_form(later[1], E))
                else:
                    d.errback(self.make_exc(later[1]))
        elif kind == 6:
            _, n, member, sin, sout = a
            if n < len(self.ifobjs):
                self.ifobjs[n].addMethod(E['Method'](member, sin, sout))
        elif kind == 7:
            c = a[1]
            if not (1 <= c <= self.k) or c in self.gone or not self.idle(c):
                return
            self.gone.append(c)
            from twisted.python.failure import Failure
            from twisted.internet.error import ConnectionDone
            for side, p in (('client', self.net.client[c]), ('bus', self.net.server[c])):
                try:
                    p.connectionLost(Failure(ConnectionDone()))
                except Exception as ex:      # not what is judged here (C09 / C14)
                    self.net.escaped.append(('lost-' + side, c, type(ex).__name__))

    def idle(self, c):
        """nothing of client c is in transit and none of its own calls is waiting for an answer (observed from
        outside: every Deferred it was handed has fired)"""
        if len(self.net.queue(('u', c))) or len(self.net.queue(('d', c))):
            return False
        return sum(1 for d in self.done if d[0] == c) == self.next_id[c]

    # -- what a scheduler may do next ---------------------------------------------------------------------------
    def deliverable(self):
        out = []
        for i in range(1, self.k + 1):
            if self.net.messages(('u', i)):
                out.append([3, i])
        for i in range(1, self.k + 1):
            if self.net.messages(('d', i)):
                out.append([4, i])
        return out

    def observe(self):
        net = []
        for i in range(1, self.k + 1):
            net += [[0, i]] * self.net.messages(('u', i))
        for i in range(1, self.k + 1):
            net += [[1, i]] * self.net.messages(('d', i))
        dead = sorted(set(x[1] for x in self.net.escaped if x[0] == 'd'))
        busdrop = sorted(set(x[1] for x in self.net.escaped if x[0] == 'u'))
        return {'invs': self.invs, 'done': self.done, 'raised': self.raised,
                'proxies': [len(self.proxies[i]) for i in range(1, self.k + 1)],
                'dead': dead, 'busdrop': busdrop, 'net': sorted(net),
                'open': sum(1 for d in self.pending if d is not None)}


def run_impl(case):
    with common.time_limit(20):
        ex = Exec(case)
        for a in case['sched']:
            ex.do(a)
        return ex.observe()


# ---------------------------------------------------------------------------------------------------------------
# the model side
def s(x):
    return x.encode('utf-8') if isinstance(x, str) else x


def exn_sexp(x):
    cls, dname, text = x
    return [s(cls), [] if dname is None else [s(dname)], s(text)]


def beh_sexp(b):
    if b[0] == 0:
        return [0, b[1]]
    if b[0] == 1:
        return [1, exn_sexp(b[1])]
    return [b[0]]


def later_sexp(l):
    return [0, l[1]] if l[0] == 0 else [1, exn_sexp(l[1])]


def spec_sexp(x):
    return [0, x[1] + 1] if x[0] == 0 else [1, s(x[1])]      # heap index 0 is the Properties interface


def action_sexp(a):
    k = a[0]
    if k == 0:
        return [0, a[1], s(a[2]), [[s(m), s(i), s(o)] for m, i, o in a[3]], a[4]]
    if k == 1:
        ifarg = a[4]
        fa = [] if ifarg is None else ([0, spec_sexp(ifarg[1])] if ifarg[0] == 0 else [1, [spec_sexp(x) for x in ifarg[1]]])
        return [1, a[1], s(a[2]), s(a[3]), fa, a[5]]
    if k == 2:
        kw = a[5]
        return [2, a[1], a[2], s(a[3]), a[4], [kw[0], kw[1], [] if kw[2] is None else [kw[2]], [] if kw[3] is None else [s(kw[3])]]]
    if k in (3, 4):
        return [k, a[1]]
    return [5, a[1], a[2], later_sexp(a[3])]


_base = {}


def base_class():
    """txdbus.objects.DBusObject as the dispatcher sees it (harness/c10.py env)"""
    E = c10.env()
    return [[] if E['base_ifaces'] is None else [E['base_ifaces']],
            [[a[0], a[1], [] if a[2] is None else [a[2]], a[3]] for a in E['base_attrs']]]


def current_ifaces(case):
    """the exporter's declarations after every re-declaration of the schedule (action 6): a method of the same name
    is replaced where it stands, a new one is added"""
    out = [[n, [list(m) for m in ms]] for n, ms in case['ifaces']]
    for a in case['sched']:
        if a[0] == 6 and a[1] < len(out):
            ms = out[a[1]][1]
            for m in ms:
                if m[0] == a[2]:
                    m[1:] = [a[3], a[4]]
                    break
            else:
                ms.append([a[2], a[3], a[4]])
    return out


def model_line(case):
    nc = len(case['classes'])
    mcls = []
    now = current_ifaces(case)
    for cd in case['classes']:
        ifs = [now[i] for i in cd['ifaces']]
        mcls.append([[ifs], [[a[0], a[1], [] if a[2] is None else [a[2]], a[3]] for a in cd['attrs']]])
    mcls.append(base_class())
    per = {}
    for c, path, ci in case['objects']:
        per.setdefault(c, []).append([path, [ci, nc]])
    objs = [[c, per[c]] for c in sorted(per)]
    sched = [[0, 1, s(PROPS), [[s(m), s(i), s(o)] for m, i, o in PROPS_DECL], 0]] + [action_sexp(a) for a in case['sched'] if a[0] not in (6, 7)]
    return '(11 %d %s %d %d %s %s %s %s %s%s)' % (
        case['k'], common.dump([0] * case['k']), SERIAL0, FUEL,
        common.dump([[c, s(n), f] for c, n, f in case['names']]),
        common.dump(mcls), common.dump(objs),
        common.dump([[b[0], beh_sexp(b[1])] for b in case['behs']]), common.dump(sched),
        '' if case.get('limit') is None else ' %d' % case['limit'])


def unopt(x):
    return None if x == [] else x[0]


def canon_form(f):
    """a pyval form as common.load returns it -> the nested form of mc.pv_form"""
    t = f[0]
    if t in (0, 1, 2):
        return [t, f[1]]
    if t in (3, 4):
        return [t, bytes(f[1])]
    if t in (5, 6, 8):
        return [t, [canon_form(x) for x in f[1]]]
    if t == 7:
        return [7, [[canon_form(k), canon_form(v)] for k, v in f[1]]]
    if t == 9:
        return [9, f[1], canon_form(f[2])]
    return [10]


def fix_form(f):
    """pv_form output with bytes normalised (bytearray -> bytes)"""
    return canon_form(f)


def model_obs(mo):
    invs, results, done, raised, proxies, dead, net, opn = mo[:8]
    o = {}
    o['invs'] = [[i[0], i[3], [canon_form(x) for x in i[4]],
                  None if i[5] == [] else [None if i[5][0] == [] else bytes(i[5][0][0]).decode('latin-1')]]
                 for i in invs]
    dn = []
    for c, cid, v in done:
        if v[0] == 0:
            dn.append([c, cid, [0, None if v[1] == [] else [canon_form(v[1][0])]]])
        elif v[0] == 1:
            dn.append([c, cid, [1, bytes(v[1]).decode('latin-1'), bytes(v[2]), [canon_form(x) for x in v[3]]]])
        else:
            dn.append([c, cid, list(v)])
    o['done'] = dn
    o['raised'] = [[r[0], 'type' if r[1][0] == 1 else 'attr'] for r in raised]
    o['proxies'] = list(proxies)
    o['dead'] = sorted(dead)
    o['net'] = sorted([[n[0], n[1]] for n in net])
    o['open'] = len(opn)
    return o


def impl_obs(io):
    o = {}
    o['invs'] = [[i[0], i[1], [fix_form(x) for x in i[2]], i[3]] for i in io['invs']]
    dn = []
    for c, cid, v in io['done']:
        if v[0] == 0:
            dn.append([c, cid, [0, None if v[1] is None else [fix_form(v[1][0])]]])
        elif v[0] == 1:
            dn.append([c, cid, [1, v[1], v[2].encode('utf-8'), [fix_form(x) for x in v[3]]]])
        else:
            dn.append([c, cid, list(v)])
    o['done'] = dn
    o['raised'] = [list(r) for r in io['raised']]
    o['proxies'] = list(io['proxies'])
    o['dead'] = sorted(io['dead'])
    o['net'] = sorted(io['net'])
    o['open'] = io['open']
    if io['busdrop']:
        o['busdrop'] = io['busdrop']
    return o


def canon_pair(io, mo):
    """what the model leaves open is left open on both sides"""
    di, dm = io['done'], mo['done']
    if len(di) == len(dm):
        for x, y in zip(di, dm):
            vi, vm = x[2], y[2]
            if vi[0] == 1 and vm[0] == 1:
                if vm[1] == PLACEHOLDER and vi[1].startswith(PYEXC):
                    vi[1:] = ['error from the encoder']
                    vm[1:] = ['error from the encoder']
                elif vm[1] in DISPATCH_ERRORS and vi[1] == vm[1]:
                    vi[2:] = ['text not modelled']
                    vm[2:] = ['text not modelled']
            elif vm == [0, [[3, b'']]] and vi[0] == 0 and vi[1] and vi[1][0][0] == 3 and vi[1][0][1].startswith(b'<!DOCTYPE'):
                vi[1] = vm[1] = ['the introspection document (text not modelled)']
    return io, mo


# ---------------------------------------------------------------------------------------------------------------
# the oracle: the property text on the implementation's observations
ELEM = re.compile(r'^[A-Za-z_][A-Za-z0-9_]*$')


def valid_error_name(n):
    if not isinstance(n, str) or len(n) > 255 or '.' not in n:
        return False
    return all(ELEM.match(e) for e in n.split('.'))


def convention(forms, sig_out):
    """the value a completed call delivers for the decoded return values (C08 convention)"""
    if not forms:
        return None
    if len(forms) == 1 and not sig_out.startswith('('):
        return forms[0]
    return [5, forms]


def judge(case, io):
    """'a call through a proxy runs that method on the exporting client with equal arguments and completes with a
    value equal to what it returned, or with a RemoteError mirroring what it raised' - on a schedule that ran until
    nothing was left to deliver.  case['expect'] = [[client, deferred id | None, exporter, fid, [expected argument
    forms], caller | None, outcome]]; outcome = ['value', expected completion form | None] | ['raise', class,
    dbusErrorName | None, text].  Every judged call is LEGAL (an exported, implemented method of an attached
    exporter, conforming arguments, made through a proxy that was declared explicitly with the exporter's
    declaration or built by introspection with fresh names / replacement requested): nothing excuses a dropped
    connection, a refusal by the proxy, a method that does not run or a Deferred that does not fire."""
    exp = case.get('expect')
    if not exp:
        return []
    if io['net'] or io['open']:
        return []            # the schedule did not run to the end (the scheduler's business)
    bad = []
    dropped = ''
    if io['dead'] or io.get('busdrop'):
        dropped = ' (an exception escaped dataReceived: clients %r, bus side of clients %r)' % (io['dead'], io.get('busdrop', []))
    if io['raised']:
        bad.append(('callRemote refused %d legal call(s) locally: %r' % (len(io['raised']), io['raised']),
                    'e2e:legal-call-refused-by-proxy'))
    want_invs = sorted([repr([e[2], e[3], e[4], e[5]]) for e in exp])
    got_invs = sorted([repr([i[0], i[1], i[2], i[3]]) for i in io['invs'] if i[1] < 1000])
    if want_invs != got_invs:
        ran = {}
        for i in io['invs']:
            ran[(i[0], i[1])] = ran.get((i[0], i[1]), 0) + 1
        wanted = {}
        for e in exp:
            wanted[(e[2], e[3])] = wanted.get((e[2], e[3]), 0) + 1
        if any(ran.get(k, 0) < n for k, n in wanted.items()):
            bad.append(('an exported method that was called did not run%s: expected %s, ran %s' % (dropped, want_invs, got_invs),
                        'e2e:method-never-ran'))
        else:
            bad.append(('the exported methods did not run exactly once each with the arguments passed: expected %s, ran %s'
                        % (want_invs, got_invs), 'invocation:not-exactly-once-with-equal-arguments'))
    for c, cid, exporter, fid, args, caller, outcome in exp:
        if cid is None:
            continue             # refused by the proxy: reported above
        got = [d[2] for d in io['done'] if d[0] == c and d[1] == cid]
        if len(got) == 0:
            bad.append(('call %d of client %d never completed although nothing is left to deliver%s' % (cid, c, dropped),
                        'e2e:call-never-completed'))
            continue
        if len(got) != 1:
            bad.append(('call %d of client %d completed %d times' % (cid, c, len(got)), 'completion:not-exactly-once'))
            continue
        g = got[0]
        if outcome[0] in ('value', 'noreply'):
            want = [0, None if outcome[0] == 'noreply' or outcome[1] is None else [outcome[1]]]
            if g != want:
                bad.append(('call %d of client %d completed with %r, the method returned %r' % (cid, c, g, want),
                            'completion:value-differs'))
        else:
            _, cls, dname, text = outcome
            name = dname if dname is not None else PYEXC + cls
            if g[0] != 1:
                bad.append(('call %d of client %d: the method raised %s, completion %r' % (cid, c, name, g),
                            'completion:raise-not-mirrored'))
            elif valid_error_name(name):
                if g[1] != name or g[2] != text.encode('utf-8'):
                    bad.append(('call %d of client %d: raised %s(%r), RemoteError %r %r' % (cid, c, name, text, g[1], g[2]),
                                'completion:remote-error-differs'))
            elif g[1] != INVALID_NAME or not g[2].endswith(text.encode('utf-8')):
                bad.append(('call %d of client %d: raised with invalid name %r, RemoteError %r %r' % (cid, c, name, g[1], g[2]),
                            'completion:remote-error-differs'))
    return bad


# ---------------------------------------------------------------------------------------------------------------
def norm_case(c):
    def fx(f):
        if isinstance(f, (bytes, bytearray)):
            return bytes(f)
        if isinstance(f, list):
            return [fx(x) for x in f]
        if isinstance(f, dict):
            return {k: fx(v) for k, v in f.items()}
        return f
    return fx(c)


def evaluate(ctx, cases, res):
    cases = [norm_case(c) for c in cases]
    impls = []
    for c in cases:
        try:
            impls.append(run_impl(c))
        except common.Timeout as ex:
            impls.append({'timeout': str(ex)})
        except AssertionError as ex:
            impls.append({'harness': 'assertion: %s' % (ex,)})
    outs = common.run_model([model_line(c) for c in cases])
    st = res.extra.setdefault('distribution', {})
    seen = res.extra.setdefault('violations_by_signature', {})

    def bump(k, n=1):
        st[k] = st.get(k, 0) + n
    for c, io, mo in zip(cases, impls, outs):
        if mo == [-1]:
            raise RuntimeError('model rejected input %r' % (model_line(c)[:400],))
        if 'timeout' in io or 'harness' in io:
            res.count(c)
            res.disagree(c, io, 'the implementation did not finish the schedule')
            continue
        oi = impl_obs(io)
        om = model_obs(mo)
        if len(mo) > 8 and mo[8] != 1:
            res.disagree(c, 'every message in flight is encodable (hypothesis of the byte-level theorems)',
                         'a message the model put in flight is not well-framed or does not parse back under '
                         'Model/WireCodec.v', what='codec')
        ci, cm = canon_pair(oi, om)
        calls = sum(1 for a in c['sched'] if a[0] == 2)
        res.count(c, nontrivial=bool(io['invs']) or bool(io['done']))
        res.traces += 1
        bump('clients:%d' % c['k'])
        bump('calls:%d' % calls)
        bump('invocations', len(io['invs']))
        bump('completions', len(io['done']))
        bump('kind:%s' % c.get('kind', '?'))
        for n in c.get('in_flight_at_loss', []):
            bump('a third client lost its connection: %s' % ('no judged call in flight' if n == 0 else 'with judged call(s) in flight'))
        for d in io['done']:
            bump('completion:%s' % {0: 'value', 1: 'remote-error', 2: 'signature-mismatch', 3: 'failed', 4: 'proxy',
                                    5: 'introspection-failed'}.get(d[2][0], '?'))
        if ci != cm:
            res.disagree(c, ci, cm)
        for why, sig in judge(c, oi):
            seen[sig] = seen.get(sig, 0) + 1
            if seen[sig] <= 10:
                res.violate(c, why, sig)
        if c.get('expect'):
            bump('oracle-judged')


# ---------------------------------------------------------------------------------------------------------------
# generators
MEMBERS = ['Foo', 'Bar', 'Baz', 'Qux']
IFACES = ['org.ex.A', 'org.ex.B', 'com.x.C']
PATHS = ['/o', '/a/b', '/x']
EXC_CLASSES = ['ValueError', 'MyError', 'E1']
EXC_NAMES = [None, None, 'org.my.Error', 'a.b', 'bad name', 'nodots']
EXC_TEXTS = ['boom', '', 'two words', 'café 日本']


class TypedGen(object):
    def __init__(self, rng):
        self.rng = rng
        self.sh = mc.Shapes(rng, c10.env()['marshal'])

    def types(self, n, depth=2):
        return [mc.gen_type(self.rng, depth) for _ in range(n)]

    def value(self, t):
        """(form of a Python value conforming to t, its read-back form)"""
        for _ in range(40):
            w = mc.gen_w(self.rng, t, 2, mc.FdCounter())
            v = self.sh.py(t, w)
            if v is None and t != 'v':
                continue
            if mc.has_none(v):
                continue
            try:
                return fix_form(mc.pv_form(v)), fix_form(mc.expected(t, w))
            except TypeError:
                continue
        return [0, 0], None

    def values(self, ts):
        out = [self.value(t) for t in ts]
        if any(e is None for _, e in out):
            return None
        return [f for f, _ in out], [e for _, e in out]


def gen_world(rng, tg, n_exporters, k, fixed=None):
    """interfaces with typed methods, one class per exporter, every (interface, member) bound to its own function;
    fixed = [(interface, [(member, in types, out types)])] instead of random declarations"""
    nif = rng.choice([1, 1, 2])
    names = rng.sample(IFACES, nif)
    ifaces = []
    sigs = {}          # (iface, member) -> (in types, out types)
    for n, decls in (fixed or []):
        ms = []
        for m, tin, tout in decls:
            sigs[(n, m)] = (tin, tout)
            ms.append([m, ''.join(mc.show(t) for t in tin), ''.join(mc.show(t) for t in tout)])
        ifaces.append([n, ms])
    for n in ([] if fixed else names):
        ms = []
        for m in rng.sample(MEMBERS, rng.choice([1, 2, 3])):
            tin = tg.types(rng.choice([0, 1, 1, 2, 3]))
            if rng.random() < 0.35:
                tout = list(tin)
            else:
                tout = tg.types(rng.choice([0, 1, 1, 2]))
            sigs[(n, m)] = (tin, tout)
            ms.append([m, ''.join(mc.show(t) for t in tin), ''.join(mc.show(t) for t in tout)])
        ifaces.append([n, ms])
    shared = set()
    seen = set()
    for n, ms in ifaces:
        for m in ms:
            if m[0] in seen:
                shared.add(m[0])
            seen.add(m[0])
    attrs = []
    fids = {}
    fid = 1
    for n, ms in ifaces:
        for m in ms:
            caller = rng.random() < 0.3
            if m[0] in shared or rng.random() < 0.4:
                attrs.append(['impl_%d' % fid, fid, [n, m[0]], caller])
            else:
                attrs.append(['dbus_' + m[0], fid, None, caller])
            fids[(n, m[0])] = (fid, caller)
            fid += 1
    classes = [{'ifaces': list(range(len(ifaces))), 'attrs': attrs}]
    exporters = rng.sample(range(1, k + 1), n_exporters)
    objects = [[c, rng.choice(PATHS), 0] for c in exporters]
    return {'ifaces': ifaces, 'classes': classes, 'objects': objects, 'sigs': sigs, 'fids': fids}


def gen_exn(rng):
    return [rng.choice(EXC_CLASSES), rng.choice(EXC_NAMES), rng.choice(EXC_TEXTS)]


def gen_beh(rng, tg, tin, tout, allow_deferred=True):
    """(beh, final) final = ['echo'] | ['value', completion form | None] | ['raise', cls, name, text] | ['deferred']"""
    sig_out = ''.join(mc.show(t) for t in tout)
    r = rng.random()
    if tin == tout and r < 0.4 and 'v' not in sig_out:
        # (a variant comes back as its content: returning it again would have its type inferred anew - C19)
        return [3], ['echo']
    if r < 0.62:
        v = tg.values(tout)
        if v is not None:
            forms, exps = v
            if len(tout) == 0:
                return [0, [10]], ['value', None]
            if len(tout) == 1:
                return [0, forms[0]], ['value', convention(exps, sig_out)]
            return [0, [rng.choice([5, 6]), forms]], ['value', convention(exps, sig_out)]
    if r < 0.82 or not allow_deferred:
        e = gen_exn(rng)
        return [1, e], ['raise'] + e
    return [2], ['deferred']


def gen_later(rng, tg, tout):
    sig_out = ''.join(mc.show(t) for t in tout)
    if rng.random() < 0.65:
        v = tg.values(tout)
        if v is not None:
            forms, exps = v
            if len(tout) == 0:
                return [0, [10]], ['value', None]
            if len(tout) == 1:
                return [0, forms[0]], ['value', convention(exps, sig_out)]
            return [0, [6, forms]], ['value', convention(exps, sig_out)]
    e = gen_exn(rng)
    return [1, e], ['raise'] + e


class Scenario(object):
    """a world, a prefix of application actions (each run to quiescence), and threads of application actions whose
    steps are interleaved with the deliveries"""

    def __init__(self, rng, k, n_exporters=1, kind='?', fixed=None):
        self.rng = rng
        self.k = k
        self.kind = kind
        self.tg = TypedGen(rng)
        self.w = gen_world(rng, self.tg, n_exporters, k, fixed)
        self.names = []
        self.behs = {}
        self.finals = {}
        self.prefix = []
        self.threads = []
        self.proxy_count = {i: 0 for i in range(1, k + 1)}
        self.decl_count = 0
        self.proxy_info = {}       # (client, pidx) -> (exporter client, path, [iface names in lookup order])
        self.ifaces0 = None        # what the exporter declares at first, when it re-declares later (action 6)
        self.drops = []            # bystanders whose connection is lost at a moment the scheduler picks (action 7)
        self.exc_home = rng.choice([0, 0, 1, 2])
        for key, (fid, _) in self.w['fids'].items():
            tin, tout = self.w['sigs'][key]
            self.behs[fid], self.finals[fid] = gen_beh(rng, self.tg, tin, tout)

    def base_case(self):
        return {'k': self.k, 'names': self.names, 'ifaces': self.ifaces0 or self.w['ifaces'],
                'classes': self.w['classes'],
                'objects': self.w['objects'], 'behs': [[f, b] for f, b in sorted(self.behs.items())],
                'sched': [], 'kind': self.kind, 'exc_home': self.exc_home}

    def exporter(self, idx=0):
        return self.w['objects'][idx]

    def bus_name_for(self, c, wellknown):
        if wellknown:
            n = 'org.svc.N%d' % c
            if [c, n, 4] not in self.names:
                self.names.append([c, n, 4])
            return n
        return ':1.%d' % c

    def explicit_proxy(self, c, exp_idx=0, wellknown=False, by_name=False):
        """declare the exporter's interfaces on the calling side and make a proxy from them; returns the actions"""
        ec, path, _ = self.exporter(exp_idx)
        acts = []
        specs = []
        order = []
        for n, ms in self.w['ifaces']:
            acts.append([0, c, n, ms, not by_name])
            specs.append([1, n] if by_name else [0, self.decl_count])
            self.decl_count += 1
            order.append(n)
        ifarg = [0, specs[0]] if len(specs) == 1 and self.rng.random() < 0.5 else [1, specs]
        acts.append([1, c, self.bus_name_for(ec, wellknown), path, ifarg, False])
        self.proxy_info[(c, self.proxy_count[c])] = (ec, path, order)
        self.proxy_count[c] += 1
        return acts

    def intro_proxy(self, c, exp_idx=0, wellknown=False, replace=None):
        ec, path, _ = self.exporter(exp_idx)
        order = [n for n, _ in self.w['ifaces']] + [PROPS]
        if replace is None:
            replace = self.rng.random() < 0.3
        self.proxy_info[(c, self.proxy_count[c])] = (ec, path, order)
        self.proxy_count[c] += 1
        return [[1, c, self.bus_name_for(ec, wellknown), path, None, replace]]

    def call(self, c, pidx, member=None, with_iface=None, given=None):
        """a well-formed call of a declared method with conforming arguments: (action, expectation stub);
        given = (argument forms, their read-back forms) instead of random arguments"""
        rng = self.rng
        ec, path, order = self.proxy_info[(c, pidx)]
        cands = [(n, m) for (n, m) in self.w['fids'] if member is None or m == member]
        n, m = rng.choice(sorted(cands))
        first = [x for x in order if (x, m) in self.w['fids']][0]
        kw_iface = None
        if first != n or (with_iface if with_iface is not None else rng.random() < 0.3):
            kw_iface = n
        tin, tout = self.w['sigs'][(n, m)]
        v = given
        for _ in range(20):
            if v is not None:
                break
            v = self.tg.values(tin)
        forms, exps = v
        fid, caller = self.w['fids'][(n, m)]
        timeout = rng.choice([None, None, None, 5, 0])
        act = [2, c, pidx, m, forms, [True, rng.random() < 0.8, timeout, kw_iface]]
        stub = {'c': c, 'exporter': ec, 'fid': fid, 'args': exps, 'caller': [':1.%d' % c] if caller else None,
                'tout': tout}
        return act, stub


def enabled_steps(ex, threads, pos, fires, drops=()):
    """the steps a scheduler can take now: next application action of a thread (when its proxy exists), a delivery
    on a link holding a complete message, a Deferred waiting to be fired, a bystander losing its connection"""
    out = []
    for ti, th in enumerate(threads):
        if pos[ti] < len(th):
            a = th[pos[ti]]
            if a[0] == 2 and a[2] >= len(ex.proxies[a[1]]):
                continue
            out.append(('app', ti))
    for d in ex.deliverable():
        out.append(('del', d))
    for key, dfr in enumerate(ex.pending):
        if dfr is not None and key in fires:
            out.append(('fire', key))
    for c in drops:
        if c not in ex.gone and ex.idle(c):
            out.append(('drop', c))
    return out


def run_schedule(scn, choose, rng, max_steps=400):
    """run the scenario once; choose(step index, enabled steps) picks what happens next.  Returns the case (with the
    schedule taken and the oracle expectations) and the branching factors met."""
    case = scn.base_case()
    with common.time_limit(30):
        return _run_schedule(scn, case, choose, rng, max_steps)


def _run_schedule(scn, case, choose, rng, max_steps):
    ex = Exec(case)
    sched = []
    expect = []
    tags = {}              # (caller's unique name, serial of its call) -> index in expect
    pend_expect = {}       # key of a Deferred of an exported method -> index in expect of the call it answers

    def issue(a, stub):
        before = ex.next_id[a[1]] if a[0] == 2 else None
        serial = ex.net.message.DBusMessage._nextSerial
        nraised = len(ex.raised)
        ex.do(a)
        sched.append(a)
        if stub is not None and len(ex.raised) > nraised:
            before = None            # callRemote raised: there is no Deferred
        if stub is not None:
            fin = scn.finals[stub['fid']]
            e = [stub['c'], before, stub['exporter'], stub['fid'], stub['args'], stub['caller'], None]
            if fin[0] == 'echo':
                e[6] = ['value', convention(stub['args'], ''.join(mc.show(t) for t in stub['tout']))]
            elif fin[0] == 'deferred':
                e[6] = ['deferred', stub['tout']]
            else:
                e[6] = list(fin)
            tags[(':1.%d' % stub['c'], serial)] = len(expect)
            expect.append(e)

    # interface objects are declared first: the n-th declared object is heap index n + 1 of the model
    # (a prefix entry is an action, or (call action, expectation stub) for a call that is judged)
    for a in [x for x in scn.prefix if x[0] == 0] + [x for x in scn.prefix if x[0] != 0]:
        if isinstance(a, tuple):
            issue(a[0], a[1])
        else:
            issue(a, None)
        for _ in range(200):
            dl = ex.deliverable()
            if not dl:
                break
            d = dl[0] + [[], 0]
            ex.do(d)
            sched.append(d)
    pos = [0] * len(scn.threads)
    branch = []
    laters = {}
    in_flight = []
    seen_pending = 0
    for step in range(max_steps):
        while seen_pending < len(ex.pending):
            ei = tags.get(ex.pending_tags[seen_pending])
            if ei is not None and expect[ei][6][0] == 'deferred':
                pend_expect[seen_pending] = ei
            seen_pending += 1
        en = enabled_steps(ex, [[x[0] for x in th] for th in scn.threads], pos, pend_expect, scn.drops)
        if not en:
            break
        i = choose(step, en)
        branch.append(len(en))
        what, arg = en[i]
        if what == 'app':
            a, stub = scn.threads[arg][pos[arg]]
            pos[arg] += 1
            issue(a, stub)
        elif what == 'del':
            n = c11_net.frame_len(ex.net.queue(('u' if arg[0] == 3 else 'd', arg[1])))
            cuts = sorted(rng.sample(range(1, n), rng.choice([0, 0, 1, 2]))) if n and n > 3 else []
            d = arg + [cuts, rng.choice([0, 0, 0, 1, 9, 40])]
            ex.do(d)
            sched.append(d)
        elif what == 'drop':
            # how many judged calls are in flight at that moment (distribution fact only)
            in_flight.append(sum(1 for e in expect if e[1] is not None
                                 and not any(x[0] == e[0] and x[1] == e[1] for x in ex.done)))
            a = [7, arg]
            ex.do(a)
            sched.append(a)
        else:
            ei = pend_expect[arg]
            tout = expect[ei][6][1]
            later, fin = gen_later(rng, scn.tg, tout)
            expect[ei][6] = list(fin)
            a = [5, expect[ei][2], arg, later]
            ex.do(a)
            sched.append(a)
    case['sched'] = sched
    if in_flight:
        case['in_flight_at_loss'] = in_flight
    complete = all(p == len(th) for p, th in zip(pos, scn.threads)) and not ex.deliverable()
    if complete and all(e[6][0] != 'deferred' for e in expect):
        case['expect'] = expect
    return case, branch


def all_schedules(scn, rng, cap):
    """every order in which the enabled steps can be taken (odometer over the choice points), at most cap"""
    choices = []
    n = 0
    while n < cap:
        taken = []

        def choose(step, en):
            c = choices[step] if step < len(choices) else 0
            if c >= len(en):
                # the enabled steps are a function of the choices made so far only as long as the code under test
                # behaves alike under every cutting of the bytes; a tree that drops a connection half way does not
                c = len(en) - 1
            taken.append(c)
            return c
        srng = common.random.Random(rng.random())
        case, branch = run_schedule(scn, choose, srng)
        yield case
        n += 1
        j = len(branch) - 1
        while j >= 0 and taken[j] + 1 >= branch[j]:
            j -= 1
        if j < 0:
            return
        choices = taken[:j] + [taken[j] + 1]


def random_schedule(scn, rng):
    return run_schedule(scn, lambda step, en: rng.randrange(len(en)), rng)[0]


def scenario_two_callers(rng, k=3, deferred=0, wellknown=False):
    """two clients call the same exporter concurrently, one through an explicit, one through an introspected proxy"""
    scn = Scenario(rng, k, 1, 'two-callers')
    ec = scn.exporter()[0]
    others = [c for c in range(1, k + 1) if c != ec]
    c1, c2 = others[0], others[1 % len(others)]
    scn.prefix += scn.explicit_proxy(c1, wellknown=wellknown)
    scn.prefix += scn.intro_proxy(c2, wellknown=wellknown)
    p2 = scn.proxy_count[c2] - 1
    force_deferred(scn, deferred)
    scn.threads = [[scn.call(c1, 0)], [scn.call(c2, p2)]]
    return scn


def force_deferred(scn, n):
    fids = sorted(scn.behs)
    for fid in fids:
        if scn.behs[fid] == [2] and n <= 0:
            key = [kk for kk, v in scn.w['fids'].items() if v[0] == fid][0]
            tin, tout = scn.w['sigs'][key]
            scn.behs[fid], scn.finals[fid] = gen_beh(scn.rng, scn.tg, tin, tout, allow_deferred=False)
    if n > 0:
        for fid in fids:
            scn.behs[fid], scn.finals[fid] = [2], ['deferred']


def scenario_one_caller(rng, ncalls=2, k=2, deferred=0):
    """one client, several calls in flight through one proxy (same links: FIFO)"""
    scn = Scenario(rng, k, 1, 'one-caller-%d' % ncalls)
    ec = scn.exporter()[0]
    c1 = [c for c in range(1, k + 1) if c != ec][0]
    if rng.random() < 0.5:
        scn.prefix += scn.explicit_proxy(c1, wellknown=rng.random() < 0.5)
    else:
        scn.prefix += scn.intro_proxy(c1, wellknown=rng.random() < 0.5)
    force_deferred(scn, deferred)
    scn.threads = [[scn.call(c1, 0)] for _ in range(ncalls)]
    return scn


def scenario_two_exporters(rng, k=4):
    """two callers, two exporters: all four links distinct"""
    scn = Scenario(rng, k, 2, 'two-exporters')
    e1, e2 = scn.exporter(0)[0], scn.exporter(1)[0]
    cs = [c for c in range(1, k + 1) if c not in (e1, e2)]
    c1, c2 = cs[0], cs[1 % len(cs)]
    scn.prefix += scn.explicit_proxy(c1, 0)
    if c2 == c1:
        scn.prefix += scn.explicit_proxy(c2, 1)
    else:
        scn.prefix += scn.intro_proxy(c2, 1)
    force_deferred(scn, 0)
    scn.threads = [[scn.call(c1, 0)], [scn.call(c2, scn.proxy_count[c2] - 1)]]
    return scn


def scenario_mutual(rng):
    """two clients exporting to each other: each is caller and exporter on the same links"""
    scn = Scenario(rng, 2, 2, 'mutual')
    e1, e2 = scn.exporter(0)[0], scn.exporter(1)[0]
    scn.prefix += scn.explicit_proxy(e1, 1)
    scn.prefix += scn.intro_proxy(e2, 0)
    force_deferred(scn, 0)
    scn.threads = [[scn.call(e1, 0)], [scn.call(e2, 0)]]
    return scn


def scenario_intro_race(rng, k=3):
    """an introspection in flight while another client's call is: thread 1 = getRemoteObject then a call through the
    proxy it yields"""
    scn = Scenario(rng, k, 1, 'introspection-race')
    ec = scn.exporter()[0]
    others = [c for c in range(1, k + 1) if c != ec]
    c1, c2 = others[0], others[1 % len(others)]
    scn.prefix += scn.explicit_proxy(c1)
    force_deferred(scn, 0)
    intro = scn.intro_proxy(c2)
    p2 = scn.proxy_count[c2] - 1
    scn.threads = [[scn.call(c1, 0)], [(intro[0], None), scn.call(c2, p2)]]
    return scn


def scenario_bystander(rng, ncalls=1, deferred=0, k=3):
    """a call between two clients while OTHER clients of the bus lose their connection: k - 2 bystanders (they may
    hold a proxy of their own and have used it - every call of theirs has completed), each lost at a moment the
    scheduler picks: before the call is issued, while its bytes are on either link, while the method's Deferred is
    unfired, while the reply travels, afterwards"""
    scn = Scenario(rng, k, 1, 'bystander-lost-%d%s' % (ncalls, '-deferred' if deferred else ''))
    ec = scn.exporter()[0]
    others = [c for c in range(1, k + 1) if c != ec]
    rng.shuffle(others)
    c1, idle = others[0], others[1:]
    if rng.random() < 0.5:
        scn.prefix += scn.explicit_proxy(c1, wellknown=rng.random() < 0.3)
    else:
        scn.prefix += scn.intro_proxy(c1, wellknown=rng.random() < 0.3)
    force_deferred(scn, deferred)
    for b in idle:
        r = rng.random()
        if r < 0.6:
            scn.prefix += scn.explicit_proxy(b) if rng.random() < 0.5 else scn.intro_proxy(b)
            if not deferred and r < 0.35:
                scn.prefix.append(scn.call(b, 0))        # answered before the schedule proper starts
    scn.threads = [[scn.call(c1, 0)] for _ in range(ncalls)]
    scn.drops = list(idle)
    return scn


# integers a variant can only carry under their own DBus type: outside the INT32 range
BIG = [([9, 117, [0, 4000000000]], [0, 4000000000]),                  # UInt32
       ([9, 117, [0, 4294967295]], [0, 4294967295]),
       ([9, 120, [0, -2 ** 40]], [0, -2 ** 40]),                      # Int64
       ([9, 120, [0, 2 ** 63 - 1]], [0, 2 ** 63 - 1]),
       ([9, 116, [0, 2 ** 63 + 1]], [0, 2 ** 63 + 1]),                # UInt64
       ([9, 116, [0, 2 ** 40]], [0, 2 ** 40])]


def scenario_big_variants(rng):
    """variant / a{sv} / av arguments and returns holding UInt32 / Int64 / UInt64 values outside the INT32 range,
    through an explicit and through an introspected proxy"""
    fixed = [('org.ex.V', [('One', ['v'], ['v']), ('Dict', [['a', ['{', 's', 'v']]], [['a', ['{', 's', 'v']]]),
                           ('List', [['a', 'v'], 't'], ['v', 'x'])])]
    scn = Scenario(rng, 3, 1, 'big-variants', fixed=fixed)
    ec = scn.exporter()[0]
    c1, c2 = [c for c in (1, 2, 3) if c != ec]
    scn.prefix += scn.explicit_proxy(c1, wellknown=rng.random() < 0.5)
    scn.prefix += scn.intro_proxy(c2, replace=rng.random() < 0.5)

    def pick():
        return rng.choice(BIG)

    def dict_of(n):
        items = [(b'k%d' % i, pick()) for i in range(n)]
        return ([7, [[[3, k], f] for k, (f, e) in items]], [7, [[[3, k], e] for k, (f, e) in items]])

    def list_of(n):
        items = [pick() for _ in range(n)]
        return ([5, [f for f, e in items]], [5, [e for f, e in items]])
    # what the methods return (conforming, and only expressible with the wrapper types)
    for (n, m), (fid, _) in scn.w['fids'].items():
        if m == 'One':
            f, e = pick()
            scn.behs[fid], scn.finals[fid] = [0, f], ['value', e]
        elif m == 'Dict':
            f, e = dict_of(2)
            scn.behs[fid], scn.finals[fid] = [0, f], ['value', e]
        else:
            f, e = pick()
            scn.behs[fid], scn.finals[fid] = [0, [6, [f, [0, -2 ** 50]]]], ['value', [5, [e, [0, -2 ** 50]]]]
    calls = []
    for c, p in ((c1, 0), (c2, scn.proxy_count[c2] - 1)):
        m = rng.choice(['One', 'Dict', 'List'])
        if m == 'One':
            f, e = pick()
            given = ([f], [e])
        elif m == 'Dict':
            f, e = dict_of(rng.choice([1, 2]))
            given = ([f], [e])
        else:
            f, e = list_of(rng.choice([1, 2, 3]))
            given = ([f, [0, 2 ** 64 - 1]], [e, [0, 2 ** 64 - 1]])
        calls.append([scn.call(c, p, member=m, given=given)])
    scn.threads = calls
    return scn


def scenario_redeclared(rng):
    """the calling process already knows the interface name - with ANOTHER definition (an older revision) - and asks
    for introspection with replaceKnownInterfaces=True: the proxy must follow what the exporter publishes now"""
    scn = Scenario(rng, 3, 1, 'redeclared')
    ec, path, _ = scn.exporter()
    c1 = [c for c in (1, 2, 3) if c != ec][0]
    force_deferred(scn, 0)
    # the stale revision, registered in the caller's process: every method takes one argument more, the last
    # method is missing
    for n, ms in scn.w['ifaces']:
        stale = [[m[0], m[1] + 'i', m[2]] for m in ms[:-1]] or [['Gone', '', '']]
        scn.prefix.append([0, c1, n, stale, False])
        scn.decl_count += 1
    how = rng.random()
    if how < 0.5:
        # a first proxy from the stale definition (no replacement), then the fresh one
        scn.prefix += [[1, c1, ':1.%d' % ec, path, None, False]]
        scn.proxy_count[c1] += 1
    scn.prefix += scn.intro_proxy(c1, replace=True)
    p = scn.proxy_count[c1] - 1
    scn.threads = [[scn.call(c1, p)] for _ in range(rng.choice([1, 2]))]
    return scn


def scenario_evolving(rng):
    """the exporter's interface changes while the object is exported and AFTER it has been introspected (and used):
    methods are re-declared under the same name with another signature, or added.  A proxy obtained afterwards - by
    introspection that does not trust the process-wide table (replaceKnownInterfaces=True), or declared explicitly
    with the current definition - must reach the methods as they are declared now.  scn.w is the world after the
    changes (what the calls are judged against), scn.ifaces0 the declarations the exporter starts with."""
    scn = Scenario(rng, 3, 1, 'evolving')
    tg = scn.tg
    ec, path, _ = scn.exporter()
    c1, c2 = [c for c in (1, 2, 3) if c != ec]
    force_deferred(scn, 0)

    def show(ts):
        return ''.join(mc.show(t) for t in ts)
    ifaces0 = []
    changes = []             # actions 6, in order
    changed = set()          # (interface, member)
    for n_idx, (n, ms) in enumerate(scn.w['ifaces']):
        ms0 = []
        for j, m in enumerate(ms):
            r = rng.random()
            if j == len(ms) - 1 and r < 0.25:
                # a method that does not exist at first (the last one: added at the end)
                changes.append([6, n_idx, m[0], m[1], m[2]])
                changed.add((n, m[0]))
                continue
            if r < 0.7:
                tin, tout = scn.w['sigs'][(n, m[0])]
                old = None
                for _ in range(10):
                    how = rng.choice(['in', 'in', 'out', 'both'])
                    oin = show(tg.types(rng.choice([0, 1, 1, 2]))) if how != 'out' else m[1]
                    oout = show(tg.types(rng.choice([0, 1, 1, 2]))) if how != 'in' else m[2]
                    if (oin, oout) != (m[1], m[2]):
                        old = [m[0], oin, oout]
                        break
                if old is None:
                    old = [m[0], m[1] + 'i', m[2]]
                ms0.append(old)
                changes.append([6, n_idx, m[0], m[1], m[2]])
                changed.add((n, m[0]))
            else:
                ms0.append(list(m))
        ifaces0.append([n, ms0])
    if not changes:
        n, ms = scn.w['ifaces'][0]
        ifaces0[0][1][0] = [ms[0][0], ms[0][1] + 'i', ms[0][2]]
        changes.append([6, 0, ms[0][0], ms[0][1], ms[0][2]])
        changed.add((n, ms[0][0]))
    rng.shuffle(changes)
    scn.ifaces0 = ifaces0
    # before: the object is introspected (its description has been asked for at least once) and perhaps used, through
    # members that stay as they are
    first = rng.choice([c1, c2])
    scn.prefix += scn.intro_proxy(first, replace=rng.random() < 0.5)
    stable = sorted(set(m for (n, m) in scn.w['fids'] if (n, m) not in changed)
                    - set(m for (n, m) in changed))
    if stable and rng.random() < 0.6:
        scn.prefix.append(scn.call(first, 0, member=rng.choice(stable)))
    if rng.random() < 0.3:
        scn.prefix += scn.intro_proxy(c1 + c2 - first, replace=True)
    # the change
    scn.prefix += changes
    # after: a proxy that reflects the exporter as it is now
    caller = rng.choice([c1, c2])
    if rng.random() < 0.75:
        scn.prefix += scn.intro_proxy(caller, replace=True, wellknown=rng.random() < 0.3)
    else:
        scn.prefix += scn.explicit_proxy(caller)
    p = scn.proxy_count[caller] - 1
    names = sorted(set(m for (n, m) in changed))
    scn.threads = []
    for _ in range(rng.choice([1, 2, 2])):
        member = rng.choice(names) if rng.random() < 0.75 else None
        scn.threads.append([scn.call(caller, p, member=member)])
    return scn


def scenario_random(rng):
    k = rng.choice([2, 3, 3, 4])
    nexp = 1 if k == 2 or rng.random() < 0.6 else 2
    scn = Scenario(rng, k, nexp, 'random')
    callers = []
    for c in range(1, k + 1):
        for ei in range(nexp):
            if scn.exporter(ei)[0] == c and rng.random() < 0.7:
                continue
            if rng.random() < 0.7:
                wk = rng.random() < 0.4
                if rng.random() < 0.5:
                    scn.prefix += scn.explicit_proxy(c, ei, wellknown=wk, by_name=rng.random() < 0.25)
                else:
                    scn.prefix += scn.intro_proxy(c, ei, wellknown=wk)
                callers.append((c, scn.proxy_count[c] - 1))
    if not callers:
        ec = scn.exporter()[0]
        c = [x for x in range(1, k + 1) if x != ec][0]
        scn.prefix += scn.explicit_proxy(c)
        callers.append((c, 0))
    ncalls = rng.choice([1, 2, 2, 3, 3])
    two = rng.sample(callers, min(2, len(callers)))
    scn.threads = []
    for _ in range(ncalls):
        c, p = rng.choice(two)
        scn.threads.append([scn.call(c, p)])
    # clients that neither export nor call (they may hold proxies): some of them lose their connection on the way
    busy = set(c for c, _ in two) | set(scn.exporter(ei)[0] for ei in range(nexp))
    spare = [c for c in range(1, k + 1) if c not in busy]
    if spare and rng.random() < 0.5:
        scn.drops = rng.sample(spare, rng.randrange(1, len(spare) + 1))
    return scn


def directed(rng):
    """the malformed stream: calls the property does not speak about (correspondence only)"""
    cases = []
    for variant in range(14):
        scn = Scenario(rng, 3, 1, 'directed-%d' % variant)
        ec, path, _ = scn.exporter()
        c1, c2 = [c for c in (1, 2, 3) if c != ec]
        scn.prefix += scn.explicit_proxy(c1)
        force_deferred(scn, 0)
        (n, m) = sorted(scn.w['fids'])[0]
        tin, tout = scn.w['sigs'][(n, m)]
        good, stub = scn.call(c1, 0, member=m)
        acts = []
        if variant == 0:        # unknown method, wrong interface keyword
            acts = [[2, c1, 0, 'Nope', [], [True, True, None, None]], [2, c1, 0, m, good[4], [True, True, None, 'org.not.There']]]
        elif variant == 1:      # argument count
            # (the interface is named: without it another interface's member of the same name could take an int
            # where it declares a double - a shape Model/Marshal.v leaves unmodelled)
            acts = [[2, c1, 0, m, good[4] + [[0, 1]], [True, True, None, n]], [2, c1, 0, m, good[4][:-1] if good[4] else [[0, 1]], [True, True, None, n]]]
        elif variant == 2:      # ill-typed arguments: nothing is sent, the Deferred fails
            bad = [[10] for _ in good[4]] or [[0, 1]]
            acts = [[2, c1, 0, m, bad, [True, True, None, good[5][3]]]]
        elif variant == 3:      # no reply expected
            acts = [[2, c1, 0, m, good[4], [False, True, None, good[5][3]]]]
        elif variant == 4:      # the calling side declares other signatures than the exporter has
            other = [[mm[0], mm[1] + 'i', mm[2]] for mm in scn.w['ifaces'][0][1]]
            acts = [[0, c2, scn.w['ifaces'][0][0], other, True], [1, c2, ':1.%d' % ec, path, [0, [0, scn.decl_count]], False],
                    [2, c2, 0, other[0][0], good[4] + [[0, 7]] if m == other[0][0] else [[0, 7]], [True, True, None, None]]]
        elif variant == 5:      # ... another return signature
            other = [[mm[0], mm[1], mm[2] + 's'] for mm in scn.w['ifaces'][0][1]]
            acts = [[0, c2, scn.w['ifaces'][0][0], other, True], [1, c2, ':1.%d' % ec, path, [0, [0, scn.decl_count]], False],
                    [2, c2, 0, m, good[4], [True, True, None, None]]]
        elif variant == 6:      # a path nobody exports; introspection of it fails
            acts = [[1, c2, ':1.%d' % ec, '/no/such', None, False], [1, c1, ':1.%d' % ec, '/no/such', [1, [[0, 0]]], False],
                    [2, c1, 1, m, good[4], [True, True, None, good[5][3]]]]
        elif variant == 7:      # a destination nobody owns: the call is never answered
            acts = [[1, c1, 'org.no.Body', path, [1, [[0, 0]]], False], [2, c1, 1, m, good[4], [True, True, None, good[5][3]]],
                    [1, c2, ':1.99', path, None, False]]
        elif variant == 8:      # names that are not bus names / paths that are not paths
            acts = [[1, c1, 'not a name', path, [1, [[0, 0]]], False], [2, c1, 1, m, good[4], [True, True, None, good[5][3]]],
                    [1, c1, ':1.%d' % ec, 'no/slash', [1, [[0, 0]]], False], [2, c1, 2, m, good[4], [True, True, None, good[5][3]]],
                    [1, c2, 'bad..name', path, None, False]]
        elif variant == 9:      # required interface names: known, unknown, missing after introspection
            acts = [[1, c2, ':1.%d' % ec, path, [0, [1, 'org.not.There']], False],
                    [1, c2, ':1.%d' % ec, path, [1, [[1, PROPS]]], False],
                    [1, c2, ':1.%d' % ec, path, [0, [1, scn.w['ifaces'][0][0]]], False]]
        elif variant == 10:     # a known interface that differs from the exporter's: reused unless replacement is asked for
            other = [[mm[0], mm[1] + 's', mm[2]] for mm in scn.w['ifaces'][0][1]]
            acts = [[0, c2, scn.w['ifaces'][0][0], other, False], [1, c2, ':1.%d' % ec, path, None, False],
                    [2, c2, 0, m, good[4], [True, True, None, None]], [2, c2, 0, m, good[4] + [[3, b'x']], [True, True, None, None]],
                    [1, c2, ':1.%d' % ec, path, None, True], [2, c2, 1, m, good[4], [True, True, None, good[5][3]]]]
        elif variant == 11:     # the method returns something its declared signature cannot carry
            fid = scn.w['fids'][(n, m)][0]
            # (within the domain on which Model/Marshal.v was validated: no str where a container is expected)
            if len(tout) == 1 and mc.show(tout[0])[0] in 'ybnqiuxtd':
                scn.behs[fid] = [0, [3, b'x']]
            elif len(tout) == 1 and mc.show(tout[0])[0] in 'sog':
                scn.behs[fid] = [0, [0, 7]]
            elif len(tout) >= 2:
                # None for SEVERAL declared values is outside the validated domain of Model/Marshal.v: the real
                # marshal() zips signature and values, writes the first value only under the full signature, and the
                # bus drops the exporter's connection on the malformed return (reported as a finding; not C11's subject)
                pass
            else:
                scn.behs[fid] = [0, [10]] if tout else [0, [5, [[10]]]]
            acts = [good]
        elif variant == 12:     # calls to the built-ins through an introspected proxy
            acts = [[1, c2, ':1.%d' % ec, path, None, False], [2, c2, 0, 'Ping', [], [True, True, None, None]],
                    [2, c2, 0, 'Introspect', [], [True, True, None, None]]]
        else:                   # a proxy for the bus itself is outside the model: refused on both sides
            acts = [[1, c2, 'org.freedesktop.DBus', '/org/freedesktop/DBus', None, False]]
        scn.threads = [[(a, None)] for a in acts]
        scn.threads = [[(a, None) for a in acts]]
        case = run_schedule(scn, lambda step, en: 0 if en[0][0] == 'app' and rng.random() < 0.6 else rng.randrange(len(en)), rng)[0]
        case.pop('expect', None)
        cases.append(case)
    return cases


def size_limit_cases(rng):
    """DBusMessage._maxMsgLen lowered on the caller's side (Model/System.v: g_limit): the request exactly at the
    limit, one byte below, one above, and somewhere else.  Correspondence only - a call refused for its size is what
    the code is meant to do, not a broken promise."""
    import copy
    scn = scenario_one_caller(rng, rng.choice([1, 2]))
    base = dict(random_schedule(scn, rng))
    base.pop('expect', None)
    ex = Exec(base)
    size = None
    for a in base['sched']:
        before = {i: len(ex.net.queue(('u', i))) for i in range(1, ex.k + 1)}
        ex.do(a)
        if a[0] == 2:
            n = len(ex.net.queue(('u', a[1]))) - before[a[1]]
            if n > 0:
                size = n
                break
    if size is None:
        return []
    out = []
    for lim in (size - 1, size, size + 1, rng.randrange(16, size + 40)):
        c = copy.deepcopy(base)
        c['limit'] = lim
        c['kind'] = 'size-limit'
        out.append(c)
    return out


def gen_cases(ctx, res):
    rng = ctx.rng
    cases = []
    ex_count = {}

    def exhaust(name, scn, cap):
        got = 0
        for case in all_schedules(scn, rng, cap):
            cases.append(case)
            got += 1
        ex_count[name] = ex_count.get(name, 0) + got
        return got < cap
    complete = True
    complete &= exhaust('two callers -> one exporter, explicit + introspected (3 clients)', scenario_two_callers(rng), 400)
    complete &= exhaust('one caller, two calls in flight on the same links', scenario_one_caller(rng, 2), 200)
    complete &= exhaust('two clients calling each other', scenario_mutual(rng), 400)
    complete &= exhaust('one caller, a method returning a Deferred', scenario_one_caller(rng, 1, deferred=1), 50)
    exhaust('two callers, both methods return Deferreds (first %d)' % ctx.n(600, 0), scenario_two_callers(rng, deferred=2), ctx.n(600, 1))
    exhaust('introspection racing a call (first %d)' % ctx.n(600, 0), scenario_intro_race(rng), ctx.n(600, 1))
    for _ in range(ctx.n(3, 10)):
        complete &= exhaust('one call, a third client loses its connection at every point', scenario_bystander(rng, 1), 60)
        complete &= exhaust('one call answered by a Deferred, a third client loses its connection at every point',
                            scenario_bystander(rng, 1, deferred=1), 60)
    exhaust('two calls in flight, a third client lost (first %d)' % ctx.n(120, 0), scenario_bystander(rng, 2, deferred=rng.choice([0, 1])),
            ctx.n(120, 1))
    if not ctx.quick:
        complete &= exhaust('two calls in flight, a third client lost', scenario_bystander(rng, 2), 3000)
        complete &= exhaust('two calls answered by Deferreds, a third client lost', scenario_bystander(rng, 2, deferred=1), 6000)
        exhaust('one call, two other clients lost (4 clients)', scenario_bystander(rng, 1, deferred=1, k=4), 2000)
    for _ in range(ctx.n(60, 600)):
        cases.append(random_schedule(scenario_bystander(rng, rng.choice([1, 2, 2, 3]), deferred=rng.choice([0, 0, 1]),
                                                        k=rng.choice([3, 3, 4])), rng))
    if not ctx.quick:
        complete &= exhaust('two callers, two exporters (4 clients)', scenario_two_exporters(rng), 400)
        complete &= exhaust('two callers, both methods return Deferreds', scenario_two_callers(rng, deferred=2), 3000)
        complete &= exhaust('one caller, three calls in flight', scenario_one_caller(rng, 3), 3000)
        complete &= exhaust('introspection racing a call', scenario_intro_race(rng), 6000)
        complete &= exhaust('two callers, well-known name', scenario_two_callers(rng, wellknown=True), 400)
    for _ in range(ctx.n(60, 600)):
        cases.append(random_schedule(scenario_big_variants(rng), rng))
    for _ in range(ctx.n(60, 600)):
        cases.append(random_schedule(scenario_redeclared(rng), rng))
    for _ in range(ctx.n(80, 800)):
        cases.append(random_schedule(scenario_evolving(rng), rng))
    res.extra['exhaustive_interleavings'] = ex_count
    res.extra['exhaustive_complete'] = bool(complete)
    for _ in range(ctx.n(6, 30)):
        cases += directed(rng)
    for _ in range(ctx.n(25, 150)):
        cases += size_limit_cases(rng)
    for _ in range(ctx.n(1500, 12000)):
        cases.append(random_schedule(scenario_random(rng), rng))
    return cases


def run(ctx, res):
    res.rule = ('real bus + 2-4 real clients in-process; typed random interface declarations (arguments / returns from '
                'the C01 generator: containers, variants, structs), explicit and introspected proxies, unique and '
                'well-known names, 1-3 concurrent calls; EVERY interleaving of call issue / link deliveries / Deferred '
                'firing for the small scenarios, random schedules beyond, every message cut into random reads; plus a '
                'malformed stream (wrong counts, unknown members, mismatched declarations, unknown destinations, bad '
                'names, required-interface checks, cache conflicts, unencodable results); exporters that re-declare / '
                'add methods on an exported interface after it was introspected, then fresh proxies; exception classes '
                'defined at module level, inside a class, inside a function; OTHER clients of the bus (bystanders: '
                'no call of their own in flight) losing their connection at every point of a call between two clients '
                'that stay attached (exhaustive for one call, random for 1-3 calls and 3-4 clients).  Non-trivial: at least one '
                'exported method ran or one Deferred completed')
    cases = gen_cases(ctx, res)
    evaluate(ctx, cases, res)
    for c in cases[:3]:
        res.sample({'k': c['k'], 'kind': c.get('kind'), 'sched_len': len(c['sched']), 'expect': c.get('expect')})
