"""Independent DBus wire encoder / decoder for harness/c14.py (no txdbus code is used).

Encoder: typed values in the vocabulary of harness/marshal_common.py (type trees and wire values,
variants as {'vt': type, 'w': value}) in either byte order, and whole messages from
[le, mtype, flags, serial, fields, types, values] with fields = [[code, value], ...].
Decoder: splits a byte stream into messages and reads the fixed header and the header field
array, keeping the signature written inside each field's variant; the body stays raw bytes."""
import struct

from harness import marshal_common as mc

ALIGN = {'y': 1, 'b': 4, 'n': 2, 'q': 2, 'i': 4, 'u': 4, 'x': 8, 't': 8, 'd': 8, 's': 4, 'o': 4, 'g': 1,
         'a': 4, '(': 8, '{': 8, 'v': 1, 'h': 4}
FIXED = {'y': 'B', 'n': 'h', 'q': 'H', 'i': 'i', 'u': 'I', 'x': 'q', 't': 'Q', 'h': 'I', 'd': 'Q'}
FIELD_TYPE = {1: 'o', 2: 's', 3: 's', 4: 's', 5: 'u', 6: 's', 7: 's', 8: 'g', 9: 'u'}


def align_of(t):
    return ALIGN[t if isinstance(t, str) else t[0]]


class Enc:
    def __init__(self, le):
        self.b = bytearray()
        self.e = '<' if le else '>'

    def pad(self, n):
        while len(self.b) % n:
            self.b.append(0)

    def u32(self, v):
        self.pad(4)
        self.b += struct.pack(self.e + 'I', v)

    def sig(self, s):
        d = s.encode('ascii')
        self.b.append(len(d))
        self.b += d + b'\0'

    def value(self, t, w):
        if isinstance(t, str):
            if t in FIXED:
                f = FIXED[t]
                self.pad(struct.calcsize(f))
                self.b += struct.pack(self.e + f, w)
            elif t == 'b':
                self.u32(1 if w else 0)
            elif t in 'so':
                d = w.encode('utf-8')
                self.u32(len(d))
                self.b += d + b'\0'
            elif t == 'g':
                self.sig(w)
            elif t == 'v':
                self.sig(mc.show(w['vt']))
                self.value(w['vt'], w['w'])
            else:
                raise ValueError(t)
        elif t[0] == 'a':
            self.u32(0)
            at = len(self.b)
            self.pad(align_of(t[1]))
            start = len(self.b)
            for x in w:
                self.value(t[1], x)
            self.b[at - 4:at] = struct.pack(self.e + 'I', len(self.b) - start)
        elif t[0] == '(':
            self.pad(8)
            for ft, x in zip(t[1], w):
                self.value(ft, x)
        elif t[0] == '{':
            self.pad(8)
            self.value(t[1], w[0])
            self.value(t[2], w[1])
        else:
            raise ValueError(t)


def encode_body(le, types, values):
    e = Enc(le)
    for t, w in zip(types, values):
        e.value(t, w)
    return bytes(e.b)


def build(le, mtype, flags, serial, fields, types, values):
    """-> (raw message, raw body)"""
    body = encode_body(le, types, values)
    w = Enc(le)
    w.b += bytes([ord('l') if le else ord('B'), mtype, flags, 1])
    w.u32(len(body))
    w.u32(serial)
    w.u32(0)
    for code, v in fields:
        w.pad(8)
        w.b.append(code)
        t = FIELD_TYPE[code]
        w.sig(t)
        w.value(t, v)
    w.b[12:16] = struct.pack(w.e + 'I', len(w.b) - 16)
    w.pad(8)
    return bytes(w.b) + body, body


class WireError(Exception):
    pass


def split_messages(buf):
    """the complete messages in a byte stream (DBus framing from the 16 fixed bytes)"""
    out = []
    off = 0
    buf = bytes(buf)
    while off < len(buf):
        if len(buf) - off < 16:
            raise WireError('truncated header')
        e = '<' if buf[off:off + 1] == b'l' else '>'
        if buf[off:off + 1] not in (b'l', b'B'):
            raise WireError('byte order mark')
        blen, = struct.unpack_from(e + 'I', buf, off + 4)
        hlen, = struct.unpack_from(e + 'I', buf, off + 12)
        total = (16 + hlen + 7) // 8 * 8 + blen
        if off + total > len(buf):
            raise WireError('truncated message')
        out.append(buf[off:off + total])
        off += total
    return out


def decode(raw):
    """-> dict(le, type, flags, version, serial, fields=[(code, sig, value)], body=bytes)"""
    le = raw[0:1] == b'l'
    e = '<' if le else '>'
    blen, serial, hlen = struct.unpack_from(e + 'III', raw, 4)
    end = 16 + hlen
    off = 16
    fields = []
    while off < end:
        off = (off + 7) // 8 * 8
        if off >= end:
            break
        code = raw[off]
        n = raw[off + 1]
        sg = raw[off + 2:off + 2 + n].decode('ascii')
        if raw[off + 2 + n] != 0:
            raise WireError('field signature')
        off += 3 + n
        if sg in ('s', 'o'):
            off = (off + 3) // 4 * 4
            ln, = struct.unpack_from(e + 'I', raw, off)
            v = raw[off + 4:off + 4 + ln].decode('utf-8')
            if raw[off + 4 + ln] != 0:
                raise WireError('field string')
            off += 5 + ln
        elif sg == 'g':
            ln = raw[off]
            v = raw[off + 1:off + 1 + ln].decode('ascii')
            off += 2 + ln
        elif sg in ('u', 'i'):
            off = (off + 3) // 4 * 4
            v, = struct.unpack_from(e + ('I' if sg == 'u' else 'i'), raw, off)
            off += 4
        else:
            raise WireError('field type %r' % sg)
        fields.append((code, sg, v))
    if off != end:
        raise WireError('header array length')
    start = (end + 7) // 8 * 8
    if any(raw[end:start]):
        raise WireError('non-zero header padding')
    body = raw[start:]
    if len(body) != blen:
        raise WireError('body length')
    return {'le': le, 'type': raw[1], 'flags': raw[2], 'version': raw[3], 'serial': serial,
            'fields': fields, 'body': bytes(body)}
